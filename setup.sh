#!/bin/sh
# offline set-up: the checks need hypothesis beside the repository's packages in /venv
set -e
if ! /venv/bin/python -c "import hypothesis" 2>/dev/null; then
  /venv/bin/pip install --no-index --find-links /opt/veriftools/wheels hypothesis
fi
/venv/bin/python -c "import hypothesis, sys; print('hypothesis', hypothesis.__version__)"
# atheris (coverage-guided campaigns of the thorough tier) goes beside the framework, not into /venv
HERE=$(cd "$(dirname "$0")" && pwd)
if [ ! -d "$HERE/.deps/atheris" ]; then
  /venv/bin/pip install -q --no-index --find-links /opt/veriftools/wheels --target "$HERE/.deps" atheris || echo "atheris not installed: fuzz stages will be skipped"
fi
cd "$HERE" && PYTHONPATH=/repo:$HERE /venv/bin/python -c "import vf.check, vf.worker, vf.replay; import csvpath; print('csvpath from', csvpath.__file__)"

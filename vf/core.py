"""Shared helpers: outcomes, canonical hashing, calling the real code, findings."""
import hashlib
import json
import os
import traceback

VERIF_ROOT = os.path.dirname(os.path.dirname(os.path.abspath(__file__)))


def canon(obj):
    return json.dumps(obj, sort_keys=True, ensure_ascii=True, default=str)


def case_hash(case):
    return hashlib.sha1(canon(case).encode()).hexdigest()[:14]


def hash32(*parts):
    h = hashlib.sha256("|".join(str(p) for p in parts).encode()).digest()
    return int.from_bytes(h[:4], "big")


def outcome(
    ok=True,
    nontrivial=False,
    labels=(),
    undefined=False,
    excluded=None,
    detail=None,
    summary=None,
    tolerated=0,
):
    """What run_case returns.
    ok         the property held on this case (or the case was excluded/undefined)
    nontrivial the case satisfied the property's stated non-triviality rule
    labels     class labels for the histogram
    undefined  the oracle declined (case discarded, not compared)
    excluded   id of the known finding whose trigger this case satisfies (not compared)
    detail     on mismatch: expected/observed difference (JSON-able)
    summary    short JSON-able rendering of the case for evidence samples
    """
    return {
        "ok": bool(ok),
        "nontrivial": bool(nontrivial),
        "labels": list(labels),
        "undefined": bool(undefined),
        "excluded": excluded,
        "detail": detail,
        "summary": summary,
        "tolerated": tolerated,
    }


class Raised:
    """Observed outcome 'the real code raised'."""

    def __init__(self, exc):
        self.type = type(exc).__name__
        self.msg = str(exc)[:300]
        cause = exc.__cause__
        self.cause = type(cause).__name__ if cause is not None else None
        tb = traceback.extract_tb(exc.__traceback__)
        self.where = None
        for fr in reversed(tb):
            if "/csvpath/" in fr.filename:
                self.where = f"{os.path.basename(fr.filename)}:{fr.lineno}:{fr.name}"
                break

    def to_json(self):
        return {
            "raised": self.type,
            "msg": self.msg,
            "cause": self.cause,
            "where": self.where,
        }

    def __repr__(self):
        return f"Raised({self.type}: {self.msg} @ {self.where})"


def call_real(fn, *a, **kw):
    """Call into csvpath; an exception is an observation, never a harness error."""
    try:
        return fn(*a, **kw)
    except Exception as e:  # noqa: BLE001 - the observation is the point
        return Raised(e)


# ---------------------------------------------------------------------------
# known findings
# ---------------------------------------------------------------------------
_FINDINGS = None


def load_findings():
    global _FINDINGS
    if _FINDINGS is None:
        p = os.path.join(VERIF_ROOT, "known_findings.json")
        if os.path.exists(p):
            with open(p) as f:
                _FINDINGS = json.load(f)
        else:
            _FINDINGS = {"findings": []}
    return _FINDINGS


def known_for(prop):
    return [
        f
        for f in load_findings()["findings"]
        if f.get("status") == "known" and f.get("property") == prop
    ]


def active_findings():
    """ids of known findings whose replay still fails on this tree (set by the parent)."""
    v = os.environ.get("VF_ACTIVE_FINDINGS", "")
    return set(x for x in v.split(",") if x)


def finding_active(fid):
    return fid in active_findings()


def jsonable(v):
    """Normalise csvpath values for comparison / JSON."""
    if isinstance(v, tuple):
        return [jsonable(x) for x in v]
    if isinstance(v, list):
        return [jsonable(x) for x in v]
    if isinstance(v, dict):
        return {str(k): jsonable(x) for k, x in v.items()}
    if isinstance(v, float):
        if v != v:
            return "nan"
        return v
    if isinstance(v, (str, int, bool)) or v is None:
        return v
    return repr(v)

"""Running the real csvpath code and collecting everything observable about a run."""
import contextlib
import io
import warnings

from . import core
from .sandbox import CapturePrinter


def new_path(policy=None, delimiter=",", quotechar='"', printer=True, csvpaths=None, skip_blank_lines=True):
    from csvpath import CsvPath

    if csvpaths is not None:
        p = csvpaths.csvpath()
    else:
        p = CsvPath(delimiter=delimiter, quotechar=quotechar, skip_blank_lines=skip_blank_lines)
    if policy is not None:
        # the second documented route (what the repo's tests do); the primary route is
        # the sandbox config.ini (Sandbox.write_config) which must be written first
        p.config.csvpath_errors_policy = list(policy)
    cp = None
    if printer:
        cp = CapturePrinter()
        p.add_printer(cp)
    return p, cp


def errors_of(p):
    out = []
    errs = p.errors
    for e in errs or []:
        out.append([e.line_count, type(e.error).__name__ if e.error is not None else None])
    return out


def state_of(p, cp=None, stdout=None):
    st = {
        "variables": core.jsonable(p.variables),
        "scan_count": p.scan_count,
        "match_count": p.match_count,
        "is_valid": p.is_valid,
        "errors": errors_of(p),
        "printouts": list(cp.lines) if cp is not None else None,
        "printouts_named": {k: list(v) for k, v in cp.named.items()} if cp is not None else None,
        "stopped": p.stopped,
        "unmatched": core.jsonable(p.unmatched) if p.unmatched is not None else None,
    }
    if stdout is not None:
        st["stdout"] = stdout
    return st


def run_path(text, method="collect", policy=None, delimiter=",", quotechar='"',
             nexts=None, want_stdout=False, csvpaths=None, pre=None, printer=True, skip_blank_lines=True):
    """Parse + run `text` on a fresh CsvPath.  Returns dict with 'lines' (or None),
    'raised' (json or None) and the state tuple."""
    buf = io.StringIO()
    with warnings.catch_warnings(), contextlib.redirect_stdout(buf):
        p, cp = new_path(policy=policy, delimiter=delimiter, quotechar=quotechar,
                         csvpaths=csvpaths, printer=printer, skip_blank_lines=skip_blank_lines)
        lines = None
        raised = None
        kept = []
        try:
            if pre is not None:
                pre(p)
            p.parse(text)
            if method == "collect":
                if nexts is None:
                    lines = p.collect()
                else:
                    lines = p.collect(nexts=nexts)
                lines = [list(ln) for ln in lines]
            elif method == "next":
                # keep the yielded objects themselves too: `list(path.next())` is a documented use
                for ln in p.next():
                    kept.append(ln)
                    lines = (lines or []) + [list(ln)]
                lines = lines or []
            elif method == "fast_forward":
                p.fast_forward()
            else:
                raise ValueError(method)
        except Exception as e:  # noqa: BLE001
            raised = core.Raised(e).to_json()
    res = state_of(p, cp, buf.getvalue() if want_stdout else None)
    res["lines"] = lines
    res["lines_retained"] = [list(x) for x in kept] if method == "next" else None
    res["raised"] = raised
    res["headers"] = list(p._headers) if p._headers is not None else None
    res["_path"] = p
    return res


def public(res):
    return {k: v for k, v in res.items() if not k.startswith("_")}


# ---------------------------------------------------------------------------
# named-paths groups through CsvPaths
# ---------------------------------------------------------------------------
SERIAL = ("collect_paths", "fast_forward_paths", "next_paths")
BYLINE = ("collect_by_line", "fast_forward_by_line", "next_by_line")
METHODS = SERIAL + BYLINE


def new_csvpaths(**kw):
    from csvpath import CsvPaths

    return CsvPaths(print_default=False, **kw)


def member_state(result):
    """everything observable about one member of a finished (or aborted) run"""
    p = result.csvpath
    lines = result.lines
    if lines is None:
        got = None
    elif isinstance(lines, list):
        got = [list(x) for x in lines]
    else:
        try:
            got = [list(x) for x in lines.next()]
        except FileNotFoundError:
            got = []
    return {
        "identity": p.identity,
        "lines": got,
        "variables": core.jsonable(p.variables),
        "printouts": list(result.printouts),
        "printouts_named": {str(k): list(v) for k, v in (result.get_printouts() or {}).items()},
        "is_valid": p.is_valid,
        "scan_count": p.scan_count,
        "match_count": p.match_count,
        "errors": [[e.line_count, type(e.error).__name__ if e.error is not None else None] for e in result.errors],
        "unmatched": core.jsonable(result.unmatched) if result.unmatched is not None else None,
        "stopped": p.stopped,
    }


def run_group(cps, pathsname, filename, method, if_all_agree=False):
    """Run a registered group with one of the six methods.  Returns
    {"raised", "yielded" (for next_*/collect_by_line), "members": [member_state...]}"""
    buf = io.StringIO()
    raised = None
    yielded = None
    with warnings.catch_warnings(), contextlib.redirect_stdout(buf):
        try:
            if method == "collect_paths":
                cps.collect_paths(pathsname=pathsname, filename=filename)
            elif method == "fast_forward_paths":
                cps.fast_forward_paths(pathsname=pathsname, filename=filename)
            elif method == "next_paths":
                yielded = [list(x) for x in cps.next_paths(pathsname=pathsname, filename=filename)]
            elif method == "collect_by_line":
                yielded = [list(x) for x in cps.collect_by_line(pathsname=pathsname, filename=filename, if_all_agree=if_all_agree)]
            elif method == "fast_forward_by_line":
                cps.fast_forward_by_line(pathsname=pathsname, filename=filename, if_all_agree=if_all_agree)
            elif method == "next_by_line":
                yielded = [list(x) for x in cps.next_by_line(pathsname=pathsname, filename=filename, if_all_agree=if_all_agree)]
            else:
                raise ValueError(method)
        except Exception as e:  # noqa: BLE001
            raised = core.Raised(e).to_json()
        members = []
        try:
            key = pathsname.lstrip("$").split(".")[0] if pathsname.startswith("$") else pathsname
            try:
                results = cps.results_manager.get_named_results(key) or []
            except Exception:  # noqa: BLE001
                if "#" not in key:
                    raise
                # the in-memory results of a 'group#identity' run may be filed under either name
                results = cps.results_manager.get_named_results(key.split("#")[0]) or []
        except Exception as e:  # noqa: BLE001
            results = []
            raised = raised or core.Raised(e).to_json()
        for r in results:
            try:
                members.append(member_state(r))
            except Exception as e:  # noqa: BLE001
                members.append({"state_error": core.Raised(e).to_json()})
    return {"raised": raised, "yielded": yielded, "members": members, "_results": results}


def setup_group(sb, cps, pathsname, texts, filename, records, delimiter=",", quotechar='"', datafile="f.csv"):
    """write the data file, register it and the group"""
    import os

    rel = sb.write_csv(datafile, records, delimiter=delimiter, quotechar=quotechar)
    with warnings.catch_warnings(), contextlib.redirect_stdout(io.StringIO()):
        cps.file_manager.add_named_file(name=filename, path=os.path.join(sb.root, rel))
        cps.paths_manager.add_named_paths(name=pathsname, paths=list(texts))
    return rel


def run_next_with_snapshots(text, delimiter=",", quotechar='"', skip_blank_lines=True):
    """iterate next() on a fresh CsvPath, recording the state tuple at every yield"""
    import copy

    buf = io.StringIO()
    snaps = []
    lines = []
    kept = []
    raised = None
    with warnings.catch_warnings(), contextlib.redirect_stdout(buf):
        p, cp = new_path(delimiter=delimiter, quotechar=quotechar, skip_blank_lines=skip_blank_lines)
        try:
            p.parse(text)
            for ln in p.next():
                kept.append(ln)
                lines.append(list(ln))
                st = state_of(p, cp)
                st = copy.deepcopy(st)
                snaps.append(st)
        except Exception as e:  # noqa: BLE001
            raised = core.Raised(e).to_json()
    res = state_of(p, cp)
    res["lines"] = lines
    res["lines_retained"] = [list(x) for x in kept]
    res["raised"] = raised
    res["snapshots"] = snaps
    return res

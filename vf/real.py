"""Running the real csvpath code and collecting everything observable about a run."""
import contextlib
import io
import warnings

from . import core
from .sandbox import CapturePrinter


def new_path(policy=None, delimiter=",", quotechar='"', printer=True, csvpaths=None):
    from csvpath import CsvPath

    if csvpaths is not None:
        p = csvpaths.csvpath()
    else:
        p = CsvPath(delimiter=delimiter, quotechar=quotechar)
    if policy is not None:
        # the second documented route (what the repo's tests do); the primary route is
        # the sandbox config.ini (Sandbox.write_config) which must be written first
        p.config.csvpath_errors_policy = list(policy)
    cp = None
    if printer:
        cp = CapturePrinter()
        p.add_printer(cp)
    return p, cp


def errors_of(p):
    out = []
    errs = p.errors
    for e in errs or []:
        out.append([e.line_count, type(e.error).__name__ if e.error is not None else None])
    return out


def state_of(p, cp=None, stdout=None):
    st = {
        "variables": core.jsonable(p.variables),
        "scan_count": p.scan_count,
        "match_count": p.match_count,
        "is_valid": p.is_valid,
        "errors": errors_of(p),
        "printouts": list(cp.lines) if cp is not None else None,
        "stopped": p.stopped,
        "unmatched": core.jsonable(p.unmatched) if p.unmatched is not None else None,
    }
    if stdout is not None:
        st["stdout"] = stdout
    return st


def run_path(text, method="collect", policy=None, delimiter=",", quotechar='"',
             nexts=None, want_stdout=False, csvpaths=None):
    """Parse + run `text` on a fresh CsvPath.  Returns dict with 'lines' (or None),
    'raised' (json or None) and the state tuple."""
    buf = io.StringIO()
    with warnings.catch_warnings(), contextlib.redirect_stdout(buf):
        p, cp = new_path(policy=policy, delimiter=delimiter, quotechar=quotechar,
                         csvpaths=csvpaths)
        lines = None
        raised = None
        try:
            p.parse(text)
            if method == "collect":
                if nexts is None:
                    lines = p.collect()
                else:
                    lines = p.collect(nexts=nexts)
                lines = [list(ln) for ln in lines]
            elif method == "next":
                lines = [list(ln) for ln in p.next()]
            elif method == "fast_forward":
                p.fast_forward()
            else:
                raise ValueError(method)
        except Exception as e:  # noqa: BLE001
            raised = core.Raised(e).to_json()
    res = state_of(p, cp, buf.getvalue() if want_stdout else None)
    res["lines"] = lines
    res["raised"] = raised
    res["headers"] = list(p._headers) if p._headers is not None else None
    res["_path"] = p
    return res


def public(res):
    return {k: v for k, v in res.items() if not k.startswith("_")}

"""Scratch working directory in which the real csvpath code is run.

csvpath resolves config/config.ini, inputs/, archive/, cache/, logs/ relative to the
current directory, so every worker process owns one scratch root, chdir()s into it and
cleans it between cases.  Nothing here imports csvpath at module import time: the
environment variable selecting the config file has to be set first.
"""
import contextlib
import csv
import io
import os
import shutil
import sys
import warnings

ALL_FLAGS = ["raise", "collect", "stop", "fail", "print", "quiet"]
DEFAULT_POLICY = ["collect", "print"]

_CONFIG_TMPL = """[csvpath_files]
extensions = txt, csvpath, csvpaths

[csv_files]
extensions = txt, csv, tsv, dat, tab, psv, ssv

[errors]
csvpath = {policy}
csvpaths = {policies}

[logging]
csvpath = error
csvpaths = error
log_file = logs/csvpath.log
log_files_to_keep = 2
log_file_size = 52428800

[config]
path =

[cache]
path = cache

[functions]
imports =

[results]
archive = archive
transfers = transfers

[inputs]
files = inputs/named_files
csvpaths = inputs/named_paths
on_unmatched_file_fingerprints = halt
"""

_counter = [0]


def scratch_base():
    # lower-case only: a configured config path is lower-cased by csvpath
    base = os.environ.get("VF_SCRATCH", "/tmp")
    return base


class Sandbox:
    """One scratch root per process.  reset() between cases."""

    def __init__(self, policy=None, policies=None, tag="w"):
        _counter[0] += 1
        self.root = os.path.join(
            scratch_base(), f"vfsb_{tag}_{os.getpid()}_{_counter[0]}"
        )
        if os.path.exists(self.root):
            shutil.rmtree(self.root)
        os.makedirs(self.root)
        self._old_cwd = os.getcwd()
        self.policy = None
        self.policies = None
        os.chdir(self.root)
        self.write_config(policy or DEFAULT_POLICY, policies or ["raise", "collect"])
        os.environ["CSVPATH_CONFIG_PATH"] = os.path.join(
            self.root, "config", "config.ini"
        )

    # -- configuration ------------------------------------------------------
    def write_config(self, policy, policies=None):
        policies = policies or self.policies or ["raise", "collect"]
        if policy == self.policy and policies == self.policies:
            if os.path.exists(os.path.join(self.root, "config", "config.ini")):
                return
        self.policy = list(policy)
        self.policies = list(policies)
        os.makedirs(os.path.join(self.root, "config"), exist_ok=True)

        def fmt(p):
            return ", ".join(p)

        with open(
            os.path.join(self.root, "config", "config.ini"), "w", encoding="utf-8"
        ) as f:
            f.write(_CONFIG_TMPL.format(policy=fmt(policy), policies=fmt(policies)))

    # -- lifecycle ----------------------------------------------------------
    def reset(self):
        os.chdir(self.root)
        for d in ("archive", "inputs", "cache", "transfers", "data", "src"):
            p = os.path.join(self.root, d)
            if os.path.isdir(p):
                shutil.rmtree(p, ignore_errors=True)
        os.makedirs(os.path.join(self.root, "data"), exist_ok=True)

    def close(self):
        try:
            os.chdir(self._old_cwd)
        except OSError:
            os.chdir("/")
        shutil.rmtree(self.root, ignore_errors=True)

    # -- data files -----------------------------------------------------------
    def write_csv(self, name, records, delimiter=",", quotechar='"', lineterminator="\n",
                  quote_all=False, final_newline=True):
        """records: list of lists of str; [] is a blank record.  Returns the
        path relative to the sandbox root (usable inside a csvpath)."""
        rel = os.path.join("data", name)
        os.makedirs(os.path.dirname(os.path.join(self.root, rel)), exist_ok=True)
        buf = io.StringIO(newline="")
        w = csv.writer(
            buf, delimiter=delimiter, quotechar=quotechar, lineterminator=lineterminator,
            quoting=csv.QUOTE_ALL if quote_all else csv.QUOTE_MINIMAL,
        )
        for r in records:
            if len(r) == 0:
                buf.write(lineterminator)
            else:
                w.writerow(r)
        text = buf.getvalue()
        if not final_newline and records and len(records[-1]) > 0 and text.endswith(lineterminator):
            text = text[: -len(lineterminator)]
        with open(os.path.join(self.root, rel), "w", encoding="utf-8", newline="") as f:
            f.write(text)
        return rel

    def write_bytes(self, rel, data):
        p = os.path.join(self.root, rel)
        os.makedirs(os.path.dirname(p), exist_ok=True)
        with open(p, "wb") as f:
            f.write(data)
        return rel


@contextlib.contextmanager
def quiet_call(capture=True):
    """Run csvpath code with warnings filters preserved (csvpath installs a
    process-wide 'error' filter on every parse) and stdout captured."""
    buf = io.StringIO()
    with warnings.catch_warnings():
        if capture:
            with contextlib.redirect_stdout(buf):
                yield buf
        else:
            yield buf


def assert_repo_code():
    """exit 2 unless the csvpath package under test is /repo's working tree."""
    import csvpath

    want = os.environ.get("VF_REPO", "/repo")
    f = os.path.realpath(csvpath.__file__)
    if not f.startswith(os.path.realpath(want) + os.sep):
        sys.stderr.write(f"HARNESS: csvpath imported from {f}, not {want}\n")
        sys.exit(2)


class CapturePrinter:
    """Duck-typed printer (same interface as csvpath.util.printer.Printer)."""

    def __init__(self):
        self.lines = []
        self.named = {}   # stream name -> lines ("default" for plain print())

    @property
    def lines_printed(self):
        return len(self.lines)

    @property
    def last_line(self):
        return self.lines[-1] if self.lines else ""

    def print(self, string):
        self.print_to(None, string)

    def print_to(self, name, string):
        self.lines.append(string)
        self.named.setdefault("default" if name is None else str(name), []).append(string)

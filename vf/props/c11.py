"""C11 - the named-files area is a versioned, content-addressed, immutable store.

case = {"ops": [["add", name, source, content] | ["mutate", source, content] | ["remove", name] | ["new"]]}
Abstract model: per name a list of (sha256, source file name) entries - appended iff the bytes or
the source file name differ from the last entry - and the set of versions ever stored.
Invariants are checked after EVERY step, through the current instance and a brand-new one.
"""
import hashlib
import itertools
import json
import os

from hypothesis import strategies as st

from .. import core, real

ID = "C11"
LEVEL = "exploration"
RULE = (
    "cases are operation sequences over add(name in {n1,n2}, source in {s1.csv,s2.csv; drawn cases also multi-dot / mixed-case file names}, content in "
    "{c1,c2,c3}) / mutate(source, content) / remove(name) / new-instance, canonical under renaming of "
    "names, sources and contents: exhaustive to length 4 (quick) / 5 (thorough) plus Hypothesis-drawn "
    "sequences up to 25 steps; after every step the store is compared with the abstract model; "
    "non-trivial = the sequence re-registers earlier bytes after a different version, or mutates a "
    "source between two adds of it; distinct = distinct sequence"
)
ASSUMPTIONS = [
    "oracle: abstract model in this file (from the C11 statement); sha256 computed by hashlib",
    "contents: one small CRLF text (line break inside a quoted cell, no final newline) and two ~80 KiB LF texts that differ only in their last line; stored bytes are compared byte for byte; source files live outside the inputs area",
]
ENUM_EXHAUSTIVE = {
    "quick": "all canonical op sequences of length <= 4",
    "thorough": "all canonical op sequences of length <= 5",
}
NAMES = ["n1", "n2"]
SOURCES = ["s1.csv", "s2.csv"]
_BIG = "id,amount\n" + "".join(f"{i},{i * 7 % 1000}\n" for i in range(9000))   # ~80 KiB
# c1: a small CRLF export with a line break inside a quoted cell and no final newline; c2/c3: LF, ~80 KiB
CONTENTS = {"c1": 'a,b\r\n1,"x\r\ny"\r\n2,3', "c2": _BIG + "last,1\n", "c3": _BIG + "last,2\n",
            "c0": ""}   # c0 (a zero-byte file) is used by drawn sequences only
ENUM_CONTENTS = ["c1", "c2", "c3"]
WALL_BUDGET_S = {"quick": 150, "thorough": 1500}


def budget(tier):
    return 400 if tier == "quick" else 6000


def _ops(contents=None):
    contents = contents or ENUM_CONTENTS
    ops = []
    for n in NAMES:
        for s in SOURCES:
            for c in contents:
                ops.append(["add", n, s, c])
    for s in SOURCES:
        for c in contents:
            ops.append(["mutate", s, c])
    for n in NAMES:
        ops.append(["remove", n])
    ops.append(["new"])
    return ops


def canonical(seq):
    """first uses appear in order n1,n2 / s1,s2 / c1,c2,c3"""
    seen_n, seen_s, seen_c = [], [], []
    for op in seq:
        if op[0] == "add":
            n, s, c = op[1], op[2], op[3]
        elif op[0] == "mutate":
            n, s, c = None, op[1], op[2]
        elif op[0] == "remove":
            n, s, c = op[1], None, None
        else:
            continue
        for v, seen, order in ((n, seen_n, NAMES), (s, seen_s, SOURCES), (c, seen_c, ENUM_CONTENTS)):
            if v is None or v in seen:
                continue
            if v != order[len(seen)]:
                return False
            seen.append(v)
    return True


def enumerate_cases(tier, seed):
    maxlen = 4 if tier == "quick" else 5
    ops = _ops()
    for ln in range(1, maxlen + 1):
        for seq in itertools.product(ops, repeat=ln):
            if seq[0][0] != "add":
                continue  # nothing to observe before the first registration
            if canonical(seq):
                yield {"ops": [list(o) for o in seq]}


# source file names of other shapes (drawn cases only; the stored file keeps "the extension" of its source)
SRC_SHAPES = [
    None,
    {"s1.csv": "orders.2031-03.csv"},
    {"s2.csv": "export.v2.final.csv"},
    {"s1.csv": "Q1.Report.csv", "s2.csv": "q1.report.csv"},
    {"s1.csv": "s1.CSV"},
    {"s2.csv": "a-b_c.csv"},
    {"s2.csv": "@hash"},   # a source file already named <sha256 of its content>.csv (e.g. a file taken from the store)
    {"s1.csv": "@hash"},
]


def actual_source(source, content):
    return sha(CONTENTS[content].encode()) + ".csv" if source == "@hash" else source


def strategy(tier):
    op = st.sampled_from(_ops(ENUM_CONTENTS + ["c0"]))
    return st.builds(
        lambda s, m: {"ops": [list(o) for o in s], **({"srcmap": m} if m else {})},
        st.lists(op, min_size=6, max_size=25), st.sampled_from(SRC_SHAPES))


def exts(source):
    """admissible extensions of a stored version of `source`: its last suffix or everything after the first dot"""
    return {"." + source.rsplit(".", 1)[1], source[source.index("."):]}


def sha(b):
    return hashlib.sha256(b).hexdigest()


class Model:
    def __init__(self):
        self.names = {}       # name -> [(sha, source)]
        self.versions = {}    # name -> {(source, sha): bytes}
        self.sources = {}     # source -> bytes currently on disk

    def add(self, name, source, content):
        b = CONTENTS[content].encode()
        self.sources[source] = b
        h = sha(b)
        ent = self.names.setdefault(name, [])
        if not ent or ent[-1] != (h, source):
            ent.append((h, source))
        self.versions.setdefault(name, {})[(source, h)] = b

    def mutate(self, source, content):
        self.sources[source] = CONTENTS[content].encode()

    def remove(self, name):
        self.names.pop(name, None)
        self.versions.pop(name, None)


def check_store(cps, model, sb, who):
    problems = []
    fm = cps.file_manager
    try:
        names = sorted(fm.named_file_names)
    except Exception as e:  # noqa: BLE001
        return [{"who": who, "named_file_names_raised": repr(e)}]
    if names != sorted(model.names):
        problems.append({"who": who, "names_expected": sorted(model.names), "observed": names})
    for name in NAMES:
        got = core.call_real(fm.get_named_file, name)
        if name not in model.names:
            if got is not None:
                problems.append({"who": who, "name": name, "expected": None, "observed": repr(got)})
            continue
        ent = model.names[name]
        h, source = ent[-1]
        if isinstance(got, core.Raised) or got is None:
            problems.append({"who": who, "name": name, "get_named_file": repr(got)})
            continue
        if not os.path.isfile(got):
            problems.append({"who": who, "name": name, "path_missing": got})
            continue
        with open(got, "rb") as f:
            b = f.read()
        latest = model.versions[name][(source, h)]
        if b != latest:
            problems.append({"who": who, "name": name, "bytes_expected_tail": latest.decode()[-60:], "observed_tail": b.decode(errors="replace")[-60:], "expected_len": len(latest), "observed_len": len(b)})
        if os.path.basename(got) not in {h + e for e in exts(source)}:
            problems.append({"who": who, "name": name, "basename_expected": sorted(h + e for e in exts(source)), "observed": os.path.basename(got)})
        fp = core.call_real(fm.get_fingerprint_for_name, name)
        if fp != h:
            problems.append({"who": who, "name": name, "fingerprint_expected": h, "observed": repr(fp)})
        mpath = os.path.join(sb.root, "inputs", "named_files", name, "manifest.json")
        try:
            with open(mpath) as f:
                man = json.load(f)
            fps = [(m.get("fingerprint"), os.path.basename(m.get("file_home", ""))) for m in man]
        except Exception as e:  # noqa: BLE001
            fps = repr(e)
        if fps != [(a, b_) for a, b_ in ent]:
            problems.append({"who": who, "name": name, "manifest_expected": ent, "observed": fps})
        for (src, vh), vb in model.versions[name].items():
            vps = [os.path.join(sb.root, "inputs", "named_files", name, src, vh + e) for e in sorted(exts(src))]
            vp = next((v for v in vps if os.path.isfile(v)), None)
            if vp is None:
                problems.append({"who": who, "name": name, "version_missing": [src, vh]})
            else:
                with open(vp, "rb") as f:
                    if f.read() != vb:
                        problems.append({"who": who, "name": name, "version_changed": [src, vh]})
    return problems


def run_case(case, sb):
    import contextlib, io, warnings
    srcmap = case.get("srcmap") or {}
    ops = [[(srcmap.get(x, x) if isinstance(x, str) else x) for x in op] for op in case["ops"]]
    model = Model()
    os.makedirs(os.path.join(sb.root, "src"), exist_ok=True)
    problems = []
    buf = io.StringIO()
    labels = []
    readd_old = False
    mutate_between = False
    hist = {}          # name -> list of sha registered
    mutated_since_add = set()
    with warnings.catch_warnings(), contextlib.redirect_stdout(buf):
        cps = real.new_csvpaths()
        for i, op in enumerate(ops):
            if op[0] == "add":
                _, name, source, content = op
                source = actual_source(source, content)
                p = os.path.join(sb.root, "src", source)
                with open(p, "wb") as f:
                    f.write(CONTENTS[content].encode())
                h = sha(CONTENTS[content].encode())
                hl = hist.setdefault(name, [])
                if h in hl[:-1] and hl and hl[-1] != h:
                    readd_old = True
                if source in mutated_since_add:
                    mutate_between = True
                    mutated_since_add.discard(source)
                hl.append(h)
                r = core.call_real(cps.file_manager.add_named_file, name=name, path=p)
                if isinstance(r, core.Raised):
                    problems.append({"step": i, "op": op, "raised": r.to_json()})
                    break
                model.add(name, source, content)
            elif op[0] == "mutate":
                _, source, content = op
                source = actual_source(source, content)
                p = os.path.join(sb.root, "src", source)
                with open(p, "wb") as f:
                    f.write(CONTENTS[content].encode())
                model.mutate(source, content)
                mutated_since_add.add(source)
            elif op[0] == "remove":
                if op[1] in model.names:
                    r = core.call_real(cps.file_manager.remove_named_file, op[1])
                    if isinstance(r, core.Raised):
                        problems.append({"step": i, "op": op, "raised": r.to_json()})
                        break
                    model.remove(op[1])
                    hist.pop(op[1], None)
            elif op[0] == "new":
                cps = real.new_csvpaths()
            pr = check_store(cps, model, sb, "current")
            if not pr:
                pr = check_store(real.new_csvpaths(), model, sb, "fresh-instance")
            if pr:
                problems.append({"step": i, "op": op, "violations": pr[:4]})
                break
    if readd_old:
        labels.append("re-add-earlier-bytes")
    if mutate_between:
        labels.append("mutate-between-adds")
    if any(o[0] == "remove" for o in ops):
        labels.append("remove")
    if any(o[0] == "new" for o in ops):
        labels.append("new-instance")
    labels.append(f"len:{min(len(ops), 7)}")
    if srcmap:
        labels.append("source-name-shape:" + "+".join(sorted(srcmap.values())))
    ok = not problems
    summary = {"ops": ops}
    return core.outcome(ok=ok, nontrivial=readd_old or mutate_between, labels=labels,
                        detail=None if ok else dict(summary, problems=problems), summary=summary)

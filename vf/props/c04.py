"""C04 - the validity verdict is False exactly when the csvpath failed the file.

case = {"table", "scan", "prog", "policy"}; programs contain conditional fail()/fail_and_stop(),
fails behind '->' whose left is false on some lines, after skip()/stop(), fail.onmatch(), and an
error-provoking component '@zz = add(#e, 1)' where column e holds 'x' on some lines.
Taps: push("tv", valid()) push("tf", failed()) first and last on every line.
"""
from hypothesis import strategies as st

from .. import core, real
from ..gen import progs
from ..model import refinterp
from . import common

ID = "C04"
LEVEL = "exploration"
RULE = (
    "cases are csvpaths with conditional fail()/fail_and_stop()/fail.onmatch() components, fails "
    "behind false '->' conditions and after skip()/stop(), and an argument-error component, run "
    "under error policies with and without 'fail'; compared: is_valid after the run, the per-line "
    "valid()/failed() values captured first and last on each line (monotone, equal to the model), "
    "returned lines; non-trivial = some line has a fail component that must NOT fire (and the case "
    "hash is distinct); about half also have one that fires"
)
ASSUMPTIONS = [
    "oracle: vf/model/refinterp.py + the policy rule 'an error handled under a policy with fail makes the verdict False' (statement)",
    "on the very line an error is handled the end-of-line tap is not compared (handled after the line's components)",
    "group aggregation (results_manager.is_valid, manifest all_valid) is checked by the group part of this check (C04g cases)",
]

POLICIES = [["collect"], ["collect", "fail"], ["fail", "print"], ["stop", "fail", "collect"], ["stop", "collect"], ["print"]]


def budget(tier):
    return 1900 if tier == "quick" else 24000


def _cond(draw, nrec):
    k = draw(st.sampled_from(["ln", "id", "in", "never", "always"]))
    if k == "ln":
        return ["==", ["f", "line_number", [], []], ["t", draw(st.integers(0, nrec))]]
    if k == "id":
        return ["==", ["h", "id"], ["t", f"r{draw(st.integers(0, max(0, nrec - 2)))}"]]
    if k == "never":
        return ["f", "no", [], []]
    if k == "always":
        return ["f", "yes", [], []]
    return ["f", "in", [], [["h", "id"], ["t", "|".join(f"r{i}" for i in draw(st.lists(st.integers(0, nrec), min_size=1, max_size=3)))]]]


@st.composite
def _case(draw):
    table = draw(progs.tables(min_rows=2, max_rows=8, ragged=False, extra=False))
    # error column: dense, benign '5' or offending 'x'
    nrec = len(table["records"])
    table["cols"].insert(1, {"name": "e", "type": "err", "dense": True})
    first = True
    for r in table["records"]:
        if not r:
            continue
        if first:
            r.insert(1, "e")
            first = False
        else:
            r.insert(1, "x" if draw(st.integers(0, 4)) == 0 else "5")
    scan = draw(progs.scans(table))
    n = draw(st.integers(1, 4))
    comps = []
    for i in range(n):
        k = draw(st.sampled_from(["when_fail", "when_fail", "when_fas", "fail_onmatch", "skip", "stop", "decider", "err", "push", "err_then"]))
        c = _cond(draw, nrec)
        if k == "when_fail":
            comps.append(["->", c, ["f", "fail", [], []]])
        elif k == "when_fas":
            if draw(st.booleans()) and c[0] != "h":
                comps.append(["f", "fail_and_stop", [], [c]])
            else:
                comps.append(["->", c, ["f", "fail_and_stop", [], []]])
        elif k == "fail_onmatch":
            comps.append(["f", "fail", ["onmatch"], []])
        elif k == "skip":
            comps.append(["f", "skip", [], [c]])
        elif k == "stop":
            comps.append(["f", "stop", [], [c]])
        elif k == "decider":
            comps.append(c if c[0] != "f" or c[1] not in ("yes",) else ["h", "id"])
        elif k == "err":
            comps.append(["=", "zz", [], None, ["f", "add", [], [["h", "e"], ["t", 1]]]])
        elif k == "err_then":
            # the error and a skip()/stop() on the very same line (the error must still be handled)
            comps.append(["=", "zz", [], None, ["f", "add", [], [["h", "e"], ["t", 1]]]])
            comps.append(["f", draw(st.sampled_from(["skip", "stop"])), [], [["==", ["h", "e"], ["t", "x"]]]])
            comps.append(["f", "push", [], [["t", "px"], ["f", "line_number", [], []]]])
        else:
            comps.append(["f", "push", [], [["t", "px"], ["f", "line_number", [], []]]])
    policy = draw(st.sampled_from(POLICIES))
    return {"table": table, "scan": scan, "prog": {"comps": comps, "mode": "AND", "ignore_vars": []}, "policy": policy,
            "override": draw(st.sampled_from([None, None, None, "fail", "no-fail"]))}


@st.composite
def _gcase(draw):
    """history of 1-3 group runs (new or reused CsvPaths): members with conditional fail()/fail_all()"""
    table = draw(progs.tables(min_rows=2, max_rows=6, ragged=False, extra=False, lead_blank=True))
    nrec = len(table["records"])
    runs = []
    for k in range(draw(st.integers(1, 3))):
        members = []
        clean = draw(st.integers(0, 2)) == 1
        for i in range(draw(st.integers(1, 3))):
            c = _cond(draw, nrec)
            kind = "none" if clean else draw(st.sampled_from(["none", "fail", "fail_all", "fail_all"]))
            comps = [["h", "id"]]
            if kind != "none":
                comps.append(["->", c, ["f", kind, [], []]])
            members.append({"id": f"m{i}", "comps": comps, "kind": kind})
        runs.append({"members": members, "reuse": k > 0 and draw(st.booleans()),
                     "method": draw(st.sampled_from(list(real.METHODS)))})
    return {"shape": "group", "table": table, "runs": runs}


def strategy(tier):
    return st.one_of(_case(), _case(), _gcase())


def run_group_case(case, sb):
    import json
    import os
    records = case["table"]["records"]
    rel = sb.write_csv("f.csv", records)
    problems = []
    labels = ["shape:group"]
    cps = None
    nontrivial = False
    fired_before = False
    for k, run in enumerate(case["runs"]):
        if cps is None or not run["reuse"]:
            cps = real.new_csvpaths()
        else:
            labels.append("reused-instance")
        texts = [common.text_of({"comps": m["comps"], "mode": "AND"}, "", "1*", comment=f"~ id: {m['id']} ~ ") for m in run["members"]]
        g = f"g{k}"
        real.setup_group(sb, cps, g, texts, "f", records)
        alone = [real.run_path(common.text_of({"comps": m["comps"], "mode": "AND"}, rel, "1*", comment=f"~ id: {m['id']} ~ ")) for m in run["members"]]
        out = real.run_group(cps, g, "f", run["method"])
        if out["raised"]:
            problems.append({"run": k, "raised": out["raised"]})
            break
        verdicts = [m["is_valid"] for m in out["members"]]
        has_fail_all = any(m["kind"] == "fail_all" for m in run["members"])
        has_any_fail = any(m["kind"] != "none" for m in run["members"])
        if not has_any_fail:
            if fired_before and run["reuse"]:
                nontrivial = True
            if not all(verdicts):
                problems.append({"run": k, "clean_run_members_invalid": verdicts, "method": run["method"], "csvpaths": texts})
        for m, a, o in zip(run["members"], alone, out["members"]):
            if not has_fail_all and o["is_valid"] != a["is_valid"]:
                problems.append({"run": k, "member": m["id"], "standalone_valid": a["is_valid"], "group_valid": o["is_valid"], "method": run["method"]})
            if not a["is_valid"] and o["is_valid"]:
                problems.append({"run": k, "member": m["id"], "failed_alone_but_valid_in_group": True, "method": run["method"]})
        agg = core.call_real(cps.results_manager.is_valid, g)
        if agg != all(verdicts):
            problems.append({"run": k, "results_manager.is_valid": repr(agg), "members": verdicts})
        gdir = os.path.join(sb.root, "archive", g)
        rds = [d for d in os.listdir(gdir) if os.path.isdir(os.path.join(gdir, d))] if os.path.isdir(gdir) else []
        if len(rds) == 1:
            try:
                with open(os.path.join(gdir, rds[0], "manifest.json")) as f:
                    man = json.load(f)
                if man.get("all_valid") != all(verdicts):
                    problems.append({"run": k, "manifest.all_valid": man.get("all_valid"), "members": verdicts})
                for m, o in zip(run["members"], out["members"]):
                    with open(os.path.join(gdir, rds[0], m["id"], "manifest.json")) as f:
                        mm = json.load(f)
                    if mm.get("valid") != o["is_valid"]:
                        problems.append({"run": k, "member": m["id"], "member_manifest.valid": mm.get("valid"), "in_memory": o["is_valid"]})
            except Exception as e:  # noqa: BLE001
                problems.append({"run": k, "manifests": repr(e)})
        else:
            problems.append({"run": k, "run_directories": rds})
        if any(not v for v in verdicts):
            fired_before = True
            labels.append("some-member-invalid")
        if problems:
            break
    ok = not problems
    summary = {"runs": [{"method": r["method"], "reuse": r["reuse"], "kinds": [m["kind"] for m in r["members"]]} for r in case["runs"]], "records": records}
    return core.outcome(ok=ok, nontrivial=nontrivial or len(case["runs"]) >= 2, labels=sorted(set(labels)),
                        detail=None if ok else dict(summary, problems=problems[:5]), summary=summary)


def _taps(tag):
    return [["f", "push", [], [["t", "tv" + tag], ["f", "valid", [], []]]],
            ["f", "push", [], [["t", "tf" + tag], ["f", "failed", [], []]]]]


def run_case(case, sb):
    if case.get("shape") == "group":
        return run_group_case(case, sb)
    records = case["table"]["records"]
    prog = case["prog"]
    has_onmatch = any(c[0] == "f" and "onmatch" in c[2] for c in prog["comps"])
    comps = _taps("0") + prog["comps"] + ([] if has_onmatch else _taps("1"))
    full = {"comps": comps, "mode": "AND"}
    sb.write_config(case["policy"])
    rel = sb.write_csv("f.csv", records)
    text = common.text_of(full, rel, case["scan"])
    eff = set(case["policy"])
    ov = case.get("override")
    if ov:
        # a validation-mode comment overrides the policy's 'fail' for this csvpath only
        text = common.text_of(full, rel, case["scan"], comment=f"~ validation-mode: {ov} ~ ")
        eff = (eff | {"fail"}) if ov == "fail" else (eff - {"fail"})
    labels = ["policy:" + "+".join(case["policy"]), f"override:{ov}"]
    it = refinterp.Interp(full, records, common.scanset(case["scan"], len(records)))
    it.error_policy = eff
    try:
        model = it.run()
    except refinterp.Undefined as u:
        return core.outcome(undefined=True, labels=["undefined:" + str(u)[:40]])
    res = real.run_path(text)
    summary = {"csvpath": text, "policy": case["policy"], "records": records,
               "expected_valid": model.is_valid, "expected_tv0": model.variables.get("tv0")}
    problems = []
    if res["raised"]:
        problems.append({"raised": res["raised"]})
    else:
        if res["is_valid"] != model.is_valid:
            problems.append({"is_valid_expected": model.is_valid, "observed": res["is_valid"]})
        rv = res["variables"]
        for nm in ("tv0", "tf0"):
            a, b = model.variables.get(nm, []), rv.get(nm, [])
            if a != b:
                problems.append({"tap": nm, "expected": a, "observed": b})
        tv0 = rv.get("tv0", [])
        if any((not x) and y for x, y in zip(tv0, tv0[1:])):
            problems.append({"not_monotone": tv0})
        if not has_onmatch:
            # end-of-line taps: skip lines on which an error was handled
            errl = set(model.error_lines)
            exp, obs = model.variables.get("tv1", []), rv.get("tv1", [])
            if len(exp) != len(obs):
                problems.append({"tap": "tv1", "expected": exp, "observed": obs})
            else:
                # map entries to lines: a tv1 entry exists for every line whose last component ran
                lines_with_tap = [t["pos"] for t in model.lines if not t.get("advanced") and not t.get("skipped") and not t.get("stopped_mid")]
                if len(lines_with_tap) == len(exp):
                    for pos, e, o in zip(lines_with_tap, exp, obs):
                        if pos in errl:
                            continue
                        if e != o:
                            problems.append({"tap": "tv1", "line": pos, "expected": e, "observed": o})
                            break
        exp_lines = [records[p] for p in model.returned]
        if res["lines"] != exp_lines:
            problems.append({"expected_lines": exp_lines, "observed_lines": res["lines"]})
        err_lines = sorted(set(e[0] for e in res["errors"]), key=lambda v: (0, v, "") if isinstance(v, int) else (1, 0, str(v)))
        if "collect" in case["policy"] and err_lines != sorted(set(model.error_lines)):
            problems.append({"error_lines_expected": sorted(set(model.error_lines)), "observed": res["errors"]})
    fired = [w for (_, _, w) in model.fired if w in ("fail", "fail_and_stop")]
    nfail_comps = sum(1 for c in prog["comps"] if "fail" in str(c))
    scanned = len(model.lines)
    # a fail component existed on a line where it must not fire
    not_fired_somewhere = nfail_comps > 0 and len(fired) < nfail_comps * max(1, scanned) and scanned > 0
    if fired:
        labels.append("fail-fired")
    if model.error_lines:
        labels.append("error-handled")
    if not model.is_valid:
        labels.append("invalid")
    nontrivial = not_fired_somewhere or (bool(model.error_lines) and "fail" not in case["policy"])
    ok = not problems
    return core.outcome(ok=ok, nontrivial=nontrivial, labels=labels,
                        detail=None if ok else dict(summary, problems=problems[:6]), summary=summary)

"""C04 - the validity verdict is False exactly when the csvpath failed the file.

case = {"table", "scan", "prog", "policy"}; programs contain conditional fail()/fail_and_stop(),
fails behind '->' whose left is false on some lines, after skip()/stop(), fail.onmatch(), and an
error-provoking component '@zz = add(#e, 1)' where column e holds 'x' on some lines.
Taps: push("tv", valid()) push("tf", failed()) first and last on every line.
"""
from hypothesis import strategies as st

from .. import core, real
from ..gen import progs
from ..model import refinterp
from . import common

ID = "C04"
LEVEL = "exploration"
RULE = (
    "cases are csvpaths with conditional fail()/fail_and_stop()/fail.onmatch() components, fails "
    "behind false '->' conditions and after skip()/stop(), and an argument-error component, run "
    "under error policies with and without 'fail'; compared: is_valid after the run, the per-line "
    "valid()/failed() values captured first and last on each line (monotone, equal to the model), "
    "returned lines; non-trivial = some line has a fail component that must NOT fire (and the case "
    "hash is distinct); about half also have one that fires"
)
ASSUMPTIONS = [
    "oracle: vf/model/refinterp.py + the policy rule 'an error handled under a policy with fail makes the verdict False' (statement)",
    "on the very line an error is handled the end-of-line tap is not compared (handled after the line's components)",
    "group aggregation (results_manager.is_valid, manifest all_valid) is checked by the group part of this check (C04g cases)",
]

POLICIES = [["collect"], ["collect", "fail"], ["fail", "print"], ["stop", "fail", "collect"], ["stop", "collect"], ["print"]]


def budget(tier):
    return 1900 if tier == "quick" else 24000


def _cond(draw, nrec):
    k = draw(st.sampled_from(["ln", "id", "in", "never", "always"]))
    if k == "ln":
        return ["==", ["f", "line_number", [], []], ["t", draw(st.integers(0, nrec))]]
    if k == "id":
        return ["==", ["h", "id"], ["t", f"r{draw(st.integers(0, max(0, nrec - 2)))}"]]
    if k == "never":
        return ["f", "no", [], []]
    if k == "always":
        return ["f", "yes", [], []]
    return ["f", "in", [], [["h", "id"], ["t", "|".join(f"r{i}" for i in draw(st.lists(st.integers(0, nrec), min_size=1, max_size=3)))]]]


@st.composite
def _case(draw):
    table = draw(progs.tables(min_rows=2, max_rows=8, ragged=False, extra=False))
    # error column: dense, benign '5' or offending 'x'
    nrec = len(table["records"])
    table["cols"].insert(1, {"name": "e", "type": "err", "dense": True})
    first = True
    for r in table["records"]:
        if not r:
            continue
        if first:
            r.insert(1, "e")
            first = False
        else:
            r.insert(1, "x" if draw(st.integers(0, 4)) == 0 else "5")
    scan = draw(progs.scans(table))
    n = draw(st.integers(1, 4))
    comps = []
    for i in range(n):
        k = draw(st.sampled_from(["when_fail", "when_fail", "when_fas", "fail_onmatch", "skip", "stop", "decider", "err", "push"]))
        c = _cond(draw, nrec)
        if k == "when_fail":
            comps.append(["->", c, ["f", "fail", [], []]])
        elif k == "when_fas":
            comps.append(["->", c, ["f", "fail_and_stop", [], []]])
        elif k == "fail_onmatch":
            comps.append(["f", "fail", ["onmatch"], []])
        elif k == "skip":
            comps.append(["f", "skip", [], [c]])
        elif k == "stop":
            comps.append(["f", "stop", [], [c]])
        elif k == "decider":
            comps.append(c if c[0] != "f" or c[1] not in ("yes",) else ["h", "id"])
        elif k == "err":
            comps.append(["=", "zz", [], None, ["f", "add", [], [["h", "e"], ["t", 1]]]])
        else:
            comps.append(["f", "push", [], [["t", "px"], ["f", "line_number", [], []]]])
    policy = draw(st.sampled_from(POLICIES))
    return {"table": table, "scan": scan, "prog": {"comps": comps, "mode": "AND", "ignore_vars": []}, "policy": policy}


def strategy(tier):
    return _case()


def _taps(tag):
    return [["f", "push", [], [["t", "tv" + tag], ["f", "valid", [], []]]],
            ["f", "push", [], [["t", "tf" + tag], ["f", "failed", [], []]]]]


def run_case(case, sb):
    records = case["table"]["records"]
    prog = case["prog"]
    has_onmatch = any(c[0] == "f" and "onmatch" in c[2] for c in prog["comps"])
    comps = _taps("0") + prog["comps"] + ([] if has_onmatch else _taps("1"))
    full = {"comps": comps, "mode": "AND"}
    sb.write_config(case["policy"])
    rel = sb.write_csv("f.csv", records)
    text = common.text_of(full, rel, case["scan"])
    labels = ["policy:" + "+".join(case["policy"])]
    it = refinterp.Interp(full, records, common.scanset(case["scan"], len(records)))
    it.error_policy = set(case["policy"])
    try:
        model = it.run()
    except refinterp.Undefined as u:
        return core.outcome(undefined=True, labels=["undefined:" + str(u)[:40]])
    res = real.run_path(text)
    summary = {"csvpath": text, "policy": case["policy"], "records": records,
               "expected_valid": model.is_valid, "expected_tv0": model.variables.get("tv0")}
    problems = []
    if res["raised"]:
        problems.append({"raised": res["raised"]})
    else:
        if res["is_valid"] != model.is_valid:
            problems.append({"is_valid_expected": model.is_valid, "observed": res["is_valid"]})
        rv = res["variables"]
        for nm in ("tv0", "tf0"):
            a, b = model.variables.get(nm, []), rv.get(nm, [])
            if a != b:
                problems.append({"tap": nm, "expected": a, "observed": b})
        tv0 = rv.get("tv0", [])
        if any((not x) and y for x, y in zip(tv0, tv0[1:])):
            problems.append({"not_monotone": tv0})
        if not has_onmatch:
            # end-of-line taps: skip lines on which an error was handled
            errl = set(model.error_lines)
            exp, obs = model.variables.get("tv1", []), rv.get("tv1", [])
            if len(exp) != len(obs):
                problems.append({"tap": "tv1", "expected": exp, "observed": obs})
            else:
                # map entries to lines: a tv1 entry exists for every line whose last component ran
                lines_with_tap = [t["pos"] for t in model.lines if not t.get("advanced") and not t.get("skipped") and not t.get("stopped_mid")]
                if len(lines_with_tap) == len(exp):
                    for pos, e, o in zip(lines_with_tap, exp, obs):
                        if pos in errl:
                            continue
                        if e != o:
                            problems.append({"tap": "tv1", "line": pos, "expected": e, "observed": o})
                            break
        exp_lines = [records[p] for p in model.returned]
        if res["lines"] != exp_lines:
            problems.append({"expected_lines": exp_lines, "observed_lines": res["lines"]})
        err_lines = sorted(set(e[0] for e in res["errors"]))
        if "collect" in case["policy"] and err_lines != sorted(set(model.error_lines)):
            problems.append({"error_lines_expected": sorted(set(model.error_lines)), "observed": res["errors"]})
    fired = [w for (_, _, w) in model.fired if w in ("fail", "fail_and_stop")]
    nfail_comps = sum(1 for c in prog["comps"] if "fail" in str(c))
    scanned = len(model.lines)
    # a fail component existed on a line where it must not fire
    not_fired_somewhere = nfail_comps > 0 and len(fired) < nfail_comps * max(1, scanned) and scanned > 0
    if fired:
        labels.append("fail-fired")
    if model.error_lines:
        labels.append("error-handled")
    if not model.is_valid:
        labels.append("invalid")
    nontrivial = not_fired_somewhere or (bool(model.error_lines) and "fail" not in case["policy"])
    ok = not problems
    return core.outcome(ok=ok, nontrivial=nontrivial, labels=labels,
                        detail=None if ok else dict(summary, problems=problems[:6]), summary=summary)

"""C19 - results depend only on the csvpath, the file and the configuration.

case = {"jobs": [{"file": k, "prog", "scan", "via": "CsvPath"|"CsvPaths"}...], "files": [{"name","records"}...],
        "warm": bool (cache populated by an earlier process), "repeat": index of a job run twice}
Twin oracle: every job's result tuple inside the history == the tuple of the same job run alone,
first, in a FRESH Python process with an empty cache.
"""
import json
import os
import shutil
import subprocess
import sys

from hypothesis import strategies as st

from .. import core, real
from ..gen import progs
from . import c20, common

ID = "C19"
LEVEL = "exploration"
RULE = (
    "cases are histories of 2-6 (csvpath, file) jobs run in one long-lived process, each created by "
    "CsvPath() or CsvPaths().csvpath(), over 1-3 files whose header cells may contain quotes, delimiters, "
    "leading quotes and spaces; some histories rewrite a file path with new content; cache directory empty "
    "or populated by an earlier process; oracle = the same job run alone, first, in a fresh Python process "
    "with an empty cache (lines, variables, printouts, errors, validity, counters, headers); a repeated job "
    "gives the same tuple; non-trivial = >=2 jobs share a file and >=1 job goes through CsvPaths with a warm "
    "cache, or a header cell needs CSV quoting; distinct = case hash"
)
ASSUMPTIONS = [
    "twins are spawned as subprocesses (python -m vf.props.c19 <job.json>) in their own scratch directory with the same relative file path",
    "programs address headers by index (header names in these files are deliberately awkward)",
    "the configuration is part of the job: the [errors] policy of config.ini is drawn per case and is the same in the history and in every twin",
]
ODD_HEADERS = ['"xy', '"q" r', "x,y", " lead", "it's", "semi;colon", "two  spaces", "tab\there", "pipe|d", "back`tick", 'mid"quote']


# [errors] csvpath = ... of config.ini, the same for the history and for every twin
POLICIES = [["collect", "print"], ["collect", "print"], ["collect"], ["collect", "fail"], ["print", "fail"], ["raise", "collect"], ["quiet", "collect"]]


def budget(tier):
    return 400 if tier == "quick" else 6400


def observers(draw):
    """components every job carries so that per-file state that may leak between jobs is visible
    in the result tuple (this property needs no model, so functions outside the modelled set are fine)"""
    comps = [["f", "push", [], [["t", "o_tl"], ["f", "total_lines", [], []]]],
             ["f", "push", [], [["t", "o_hc"], ["f", "count_headers", [], []]]],
             ["f", "push", [], [["t", "o_cl"], ["f", "count_lines", [], []]]]]
    k = draw(st.sampled_from(["none", "none", "append", "reset", "error"]))
    if k == "error":
        # a run-time argument error on every line (column 0 holds text): what happens to it is configuration
        comps.append(["=", "ez", [], None, ["f", "add", [], [["hi", 0], ["t", 1]]]])
    elif k == "append":
        comps.append(["f", "append", [], [["t", "extra"], ["hi", 0]]])
    elif k == "reset":
        comps.append(["->", ["==", ["f", "line_number", [], []], ["t", 2]], ["f", "reset_headers", [], []]])
    return comps


@st.composite
def _case(draw):
    nfiles = draw(st.integers(1, 3))
    files = []
    tables = []
    # one case in six is about very small files (header only, or one data row), whole-file scans, end-of-file
    # dependent programs and a cache warmed by an earlier process
    tiny = draw(st.integers(0, 5)) == 0
    for k in range(nfiles):
        # (also header-only files: min_rows=0)
        if tiny:
            t = draw(progs.tables(min_rows=0, max_rows=draw(st.sampled_from([0, 0, 1])), blanks=False))
        else:
            t = draw(progs.tables(min_rows=draw(st.sampled_from([0, 1, 1, 1])), max_rows=5))
        if draw(st.integers(0, 2)) != 1:
            hp = progs.hdr_pos(t)
            hdr = t["records"][hp]
            for i in range(1, len(hdr)):
                if draw(st.booleans()):
                    hdr[i] = draw(st.sampled_from(ODD_HEADERS))
            # keep header names unique
            seen = set()
            for i in range(len(hdr)):
                while hdr[i] in seen:
                    hdr[i] += "x"
                seen.add(hdr[i])
        tables.append(t)
        files.append({"name": f"f{k}.csv", "records": t["records"]})
    njobs = draw(st.integers(2, 6))
    jobs = []
    for j in range(njobs):
        k = draw(st.integers(0, nfiles - 1))
        t = tables[k]
        kinds = ("assign", "print", "last", "last") if tiny else ("b", "b", "assign", "when", "se", "print", "first", "last")
        prog = draw(progs.programs(t, kinds=kinds, max_comps=3, depth=2))
        prog["comps"] = c20.by_index(prog["comps"], t["cols"])
        prog["comps"] = observers(draw) + prog["comps"]
        scan = "*" if tiny else draw(progs.scans(t, from_data=draw(st.sampled_from([True, True, False]))))
        jobs.append({"file": k, "prog": prog, "scan": scan, "via": draw(st.sampled_from(["CsvPath", "CsvPaths", "CsvPaths"]))})
    rewrite = None
    if draw(st.integers(0, 3)) == 2 and njobs >= 2:
        # a file path reused with different content between two jobs
        t2 = draw(progs.tables(min_rows=1, max_rows=6))
        at = draw(st.integers(1, njobs - 1))
        k = jobs[at]["file"]
        same_size = draw(st.booleans()) and len(tables[k]["cols"]) >= 2
        if same_size:
            # the same bytes in another order (first two columns swapped): same path, same size, and the
            # harness pins the new modification time 1 ms after the old one
            t2 = {"cols": [tables[k]["cols"][1], tables[k]["cols"][0]] + list(tables[k]["cols"][2:]),
                  "records": [([r[1], r[0]] + list(r[2:])) if len(r) >= 2 else list(r) for r in tables[k]["records"]]}
        rewrite = {"before_job": at, "file": k, "records": t2["records"], "same_size": same_size}
        for j in range(at, njobs):
            if jobs[j]["file"] == k:
                prog = draw(progs.programs(t2, kinds=("b", "assign", "se"), max_comps=2, depth=1))
                prog["comps"] = observers(draw) + c20.by_index(prog["comps"], t2["cols"])
                jobs[j] = {"file": k, "prog": prog, "scan": draw(progs.scans(t2)), "via": draw(st.sampled_from(["CsvPath", "CsvPaths", "CsvPaths"]))}
    return {"files": files, "jobs": jobs, "warm": True if tiny else draw(st.booleans()), "repeat": draw(st.integers(0, njobs - 1)), "rewrite": rewrite,
            "delimiter": draw(st.sampled_from([",", ",", ";", "|"])),
            "policy": draw(st.sampled_from(POLICIES)),
            # the constructor argument skip_blank_lines=False, given to CsvPath() and to CsvPaths() alike
            "keep_blank": draw(st.sampled_from([False, False, False, False, True]))}


def strategy(tier):
    return _case()


KEYS = ("lines", "variables", "printouts", "errors", "is_valid", "scan_count", "match_count", "headers", "raised")


def run_job(job, rel, cps=None, delimiter=",", keep_blank=False):
    text = common.text_of(job["prog"], rel, job["scan"])
    if job["via"] == "CsvPaths":
        cps = cps or real.new_csvpaths(delimiter=delimiter, skip_blank_lines=not keep_blank)
        r = real.run_path(text, csvpaths=cps)
    else:
        r = real.run_path(text, delimiter=delimiter, skip_blank_lines=not keep_blank)
    out = {k: r[k] for k in KEYS}
    if out["raised"]:
        out["raised"] = {"raised": out["raised"]["raised"]}
    return json.loads(json.dumps(out, default=str))


def twin(job, records, fname, delimiter=",", policy=None, keep_blank=False):
    """run one job alone in a fresh process with an empty cache"""
    # the twin is always created directly (CsvPath()): the property also says the creation route does not matter
    payload = json.dumps({"job": dict(job, via="CsvPath"), "records": records, "fname": fname, "delimiter": delimiter, "policy": policy, "keep_blank": keep_blank})
    env = dict(os.environ)
    env.pop("CSVPATH_CONFIG_PATH", None)
    r = subprocess.run([sys.executable, "-m", "vf.props.c19"], input=payload, capture_output=True, text=True,
                       env=env, cwd=core.VERIF_ROOT)
    if r.returncode != 0:
        raise RuntimeError("twin process failed: " + r.stderr[-2000:])
    return json.loads(r.stdout.strip().split("\n")[-1])


def warm_cache(files, sb, delimiter=","):
    """an earlier process ran something over the same file paths through CsvPaths"""
    payload = json.dumps({"warm": [{"fname": f["name"], "records": f["records"]} for f in files], "root": sb.root, "delimiter": delimiter})
    env = dict(os.environ)
    r = subprocess.run([sys.executable, "-m", "vf.props.c19"], input=payload, capture_output=True, text=True,
                       env=env, cwd=core.VERIF_ROOT)
    if r.returncode != 0:
        raise RuntimeError("warm-up process failed: " + r.stderr[-2000:])


def run_case(case, sb):
    files = [dict(f) for f in case["files"]]
    dl = case.get("delimiter", ",")
    policy = case.get("policy") or ["collect", "print"]
    sb.write_config(policy)
    rels = [sb.write_csv(f["name"], f["records"], delimiter=dl) for f in files]
    labels = [f"delimiter:{dl}", "policy:" + "+".join(policy)]
    if case["warm"]:
        warm_cache(files, sb, dl)
        labels.append("warm-cache")
    problems = []
    kb = bool(case.get("keep_blank"))
    if kb:
        labels.append("skip_blank_lines=False")
    cps = real.new_csvpaths(delimiter=dl, skip_blank_lines=not kb)
    twins = {}
    current = {k: f["records"] for k, f in enumerate(files)}
    used = {}
    quoting = any(any(ch in c for ch in ',"\n') for f in files for r in f["records"][:2] for c in r)
    shared = False
    via_cps = False
    for j, job in enumerate(case["jobs"]):
        rw = case.get("rewrite")
        if rw and rw["before_job"] == j:
            current[rw["file"]] = rw["records"]
            fp = os.path.join(sb.root, rels[rw["file"]])
            st0 = os.stat(fp)
            sb.write_csv(files[rw["file"]]["name"], rw["records"], delimiter=dl)
            labels.append("path-rewritten")
            if rw.get("same_size"):
                if os.stat(fp).st_size != st0.st_size:
                    raise RuntimeError("same-size rewrite changed the size")
                ms = 1_000_000
                ns = st0.st_mtime_ns + ms if st0.st_mtime_ns % 1_000_000_000 < 900_000_000 else st0.st_mtime_ns - ms
                os.utime(fp, ns=(ns, ns))
                labels.append("path-rewritten-same-size-same-second")
        k = job["file"]
        used[k] = used.get(k, 0) + 1
        shared = shared or used[k] >= 2
        via_cps = via_cps or (job["via"] == "CsvPaths" and (case["warm"] or used[k] >= 2))
        got = run_job(job, rels[k], cps if job["via"] == "CsvPaths" else None, dl, kb)
        key = core.case_hash({"job": dict(job, via="CsvPath"), "records": current[k]})
        if key not in twins:
            twins[key] = twin(job, current[k], files[k]["name"], dl, policy, kb)
        exp = twins[key]
        if got["errors"]:
            labels.append("run-time-errors")
        if got != exp:
            diff = {f: {"in_history": got[f], "fresh_process": exp[f]} for f in KEYS if got[f] != exp[f]}
            problems.append({"job": j, "via": job["via"], "csvpath": common.text_of(job["prog"], rels[k], job["scan"]),
                             "records": current[k], "differs": diff})
            break
        if j == case["repeat"]:
            again = run_job(job, rels[k], cps if job["via"] == "CsvPaths" else None, dl, kb)
            if again != got:
                diff = {f: {"first": got[f], "second": again[f]} for f in KEYS if got[f] != again[f]}
                problems.append({"job": j, "repeat_differs": diff})
                break
    nontrivial = (shared and via_cps) or quoting
    if quoting:
        labels.append("header-needs-quoting")
    ok = not problems
    summary = {"jobs": [{"via": j["via"], "file": j["file"], "csvpath": common.text_of(j["prog"], rels[j["file"]], j["scan"])} for j in case["jobs"]],
               "files": [f["records"][:2] for f in files], "warm": case["warm"]}
    return core.outcome(ok=ok, nontrivial=nontrivial, labels=labels,
                        detail=None if ok else dict(summary, problems=problems), summary=summary)


def _main():
    """twin / warm-up entry point: reads a JSON payload on stdin"""
    import warnings
    from ..sandbox import Sandbox, assert_repo_code
    payload = json.loads(sys.stdin.read())
    if "warm" in payload:
        # populate the cache of an existing sandbox root from a separate process
        os.chdir(payload["root"])
        os.environ["CSVPATH_CONFIG_PATH"] = os.path.join(payload["root"], "config", "config.ini")
        assert_repo_code()
        cps = real.new_csvpaths(delimiter=payload.get("delimiter", ","))
        for f in payload["warm"]:
            real.run_path(f"$data/{f['fname']}[*][yes()]", csvpaths=cps)
        print(json.dumps({"ok": True}))
        return
    sb = Sandbox(tag="c19twin", policy=payload.get("policy") or None)
    try:
        assert_repo_code()
        sb.reset()
        rel = sb.write_csv(payload["fname"], payload["records"], delimiter=payload.get("delimiter", ","))
        out = run_job(payload["job"], rel, None, payload.get("delimiter", ","), bool(payload.get("keep_blank")))
        print(json.dumps(out))
    finally:
        sb.close()


if __name__ == "__main__":
    _main()

"""C20 - data and values flow between csvpaths as declared.

shapes:
 chain: {"table", "members": [prog...], "preceding_from": j}   serial collect_paths, members >= j carry source-mode: preceding
 refs:  {"tables": [t1..tk], "writers": [...], "reader": ...}   group g run k times, then group h reads $g.variables.* / $g.headers.*
 replay: group g collected, then collect_paths(filename="$g.results.<prefix>:last.<id>") with yes()
"""
import json
import os

from hypothesis import strategies as st

from .. import core, real
from ..gen import progs
from . import c08, c09, common

ID = "C20"
LEVEL = "exploration"
RULE = (
    "cases are (a) chains of 2-4 generated filter csvpaths with source-mode: preceding on a drawn suffix, "
    "collected serially: every stage must return exactly what a standalone CsvPath returns over a file written "
    "from the previous stage's expected lines, and its manifest must name the predecessor's data.csv; (b) a "
    "group of variable-writing members run 1-3 times (different files) on one instance, then a reader whose "
    "member assigns $g.variables.v, $g.variables.v.key and $g.headers.name[.id] to its own variables: values "
    "must equal the standalone results of the most recent run; (c) a results reference used as a file name "
    "replays exactly the referenced member's data.csv; non-trivial = chain where >=2 stages each drop >=1 line, "
    "or a reference read after >=2 runs whose final values differ; distinct = case hash"
)
ASSUMPTIONS = [
    "composition oracle: standalone CsvPath runs over harness-written files (csv.writer default dialect)",
    "chain members address headers by index (a filtered data.csv usually loses the header row)",
    "chains in which a non-final stage returns no line are discarded (reading an absent data.csv is not specified)",
]


def budget(tier):
    return 640 if tier == "quick" else 8000


def by_index(n, cols):
    names = [c["name"] for c in cols]
    if isinstance(n, list):
        if len(n) == 2 and n[0] == "h" and n[1] in names:
            return ["hi", names.index(n[1])]
        return [by_index(x, cols) for x in n]
    return n


def _filter(draw, table):
    """a permissive filter (drops a few lines) addressed by index"""
    n = len(table["records"])
    k = draw(st.sampled_from(["in", "notin", "noteq", "exists", "generic"]))
    ids = ["id"] + [f"r{i}" for i in range(n)]
    if k == "in":
        drop = set(draw(st.lists(st.sampled_from(ids), min_size=1, max_size=2)))
        return {"comps": [["f", "in", [], [["hi", 0], ["t", "|".join(i for i in ids if i not in drop)]]]], "mode": "AND", "ignore_vars": []}
    if k == "notin":
        drop = draw(st.lists(st.sampled_from(ids), min_size=1, max_size=2, unique=True))
        return {"comps": [["f", "not", [], [["f", "in", [], [["hi", 0], ["t", "|".join(drop)]]]]]], "mode": "AND", "ignore_vars": []}
    if k == "noteq":
        return {"comps": [["f", "not", [], [["==", ["hi", 0], ["t", draw(st.sampled_from(ids))]]]]], "mode": "AND", "ignore_vars": []}
    if k == "exists":
        return {"comps": [["hi", draw(st.integers(0, len(table["cols"]) - 1))]], "mode": "AND", "ignore_vars": []}
    prog = draw(progs.programs(table, kinds=("b",), max_comps=2, depth=2, or_mode=True))
    prog["comps"] = by_index(prog["comps"], table["cols"])
    return prog


@st.composite
def _chain(draw):
    table = draw(progs.tables(min_rows=3, max_rows=9, lead_blank=False))
    k = draw(st.integers(2, 4))
    members = []
    for i in range(k):
        members.append({"prog": _filter(draw, table), "id": f"s{i}"})
    return {"shape": "chain", "table": table, "members": members, "preceding_from": draw(st.integers(1, k - 1)),
            "via_ref": draw(st.sampled_from([False, False, True]))}


@st.composite
def _refs(draw):
    # (1 data row: the referenced run then collected exactly one line)
    base = draw(progs.tables(min_rows=draw(st.sampled_from([1, 2, 2])), max_rows=6, ragged=False, extra=False, pad=False, blanks=False))
    cols = base["cols"]
    # sparse columns: make sure some cells are really empty (a header reference lists them as '')
    for r in base["records"][1:]:
        for i, c in enumerate(cols):
            if not c["dense"] and draw(st.integers(0, 2)) == 1:
                r[i] = ""
    tables = [base]
    nruns = draw(st.integers(1, 3))
    for _ in range(nruns - 1):
        # same schema, other values
        t = draw(progs.tables(min_rows=2, max_rows=6, ragged=False, extra=False, pad=False, blanks=False))
        import copy
        t2 = copy.deepcopy(base)
        hdr = t2["records"][0]
        rows = []
        for r in range(draw(st.sampled_from([1, 1, 2, 3, 4, 5, 6]))):
            row = [f"r{r}"]
            for c in cols[1:]:
                row.append(draw(st.sampled_from(progs.POOL[c["type"]])))
            rows.append(row)
        t2["records"] = [hdr] + rows
        tables.append(t2)
    nw = draw(st.integers(1, 3))
    writers = []
    env = progs.Env(base)
    for i in range(nw):
        e, typ = progs.value_expr(draw, env, 1)
        while typ == "A":
            e, typ = progs.value_expr(draw, env, 1)
        dcols = [c for c in cols if c["dense"]]
        kc = draw(st.sampled_from(dcols))
        writers.append({"id": f"w{i}", "var": f"v{i}", "expr": e,
                        "track_col": kc["name"], "hdr": draw(st.sampled_from(cols))["name"]})
    return {"shape": "refs", "tables": tables, "writers": writers}


@st.composite
def _replay(draw):
    table = draw(progs.tables(min_rows=2, max_rows=8))
    prog = _filter(draw, table)
    return {"shape": "replay", "table": table, "prog": prog, "scan": draw(st.sampled_from(["*", "1*", "0-3"])),
            "prefix": draw(st.sampled_from(["20", "2", ""]))}


def strategy(tier):
    return st.one_of(_chain(), _chain(), _refs(), _refs(), _replay())


def run_chain(case, sb):
    records = case["table"]["records"]
    members = case["members"]
    j = case["preceding_from"]
    rel = sb.write_csv("f.csv", records)

    def text(m, filename, preceding):
        fields = [f"id: {m['id']}"]
        if m["prog"].get("mode") == "OR":
            fields.append("logic-mode: OR")
        if preceding:
            fields.append("source-mode: preceding")
        return common.text_of(m["prog"], filename, "*", comment="~ " + " ".join(fields) + " ~ ")
    # composition oracle
    if case.get("via_ref"):
        rel = sb.write_csv("copied.csv", [r for r in records if r])
    expected = []
    dropped = 0
    empty_at = None
    for i, m in enumerate(members):
        if i >= j:
            prev = expected[i - 1]
            if not prev:
                # the predecessor hands over nothing: this stage and every later one has nothing to read. Whether
                # the run then ends with an error is not stated; that no stage reads other data is.
                empty_at = i
                expected += [[] for _ in members[i:]]
                break
            src = sb.write_csv(f"stage{i}.csv", prev)
        else:
            src = rel
        r = real.run_path(text(m, src, False))
        if r["raised"] or r["errors"]:
            return core.outcome(undefined=True, labels=["stage-errors-standalone"])
        expected.append(r["lines"])
        n_in = len([x for x in (expected[i - 1] if i >= j else records) if x])
        if len(r["lines"]) < n_in:
            dropped += 1
    c08.sb_reset_archive(sb)
    cps = real.new_csvpaths()
    texts = [text(m, "", i >= j) for i, m in enumerate(members)]
    real.setup_group(sb, cps, "chain", texts, "f", records)
    fname = "f"
    if case.get("via_ref"):
        # the chain's input is itself a results reference: a first group copies every non-blank
        # record into its data.csv, the chain then runs against '$src.results.:last.all'
        import contextlib, io, warnings
        with warnings.catch_warnings(), contextlib.redirect_stdout(io.StringIO()):
            cps.paths_manager.add_named_paths(name="src", paths=["~ id: all ~ $[*][ yes() ]"])
        o0 = real.run_group(cps, "src", "f", "collect_paths")
        if o0["raised"]:
            return core.outcome(undefined=True, labels=["source-run-raised"])
        fname = "$src.results.:last.all"
    out = real.run_group(cps, "chain", fname, "collect_paths")
    problems = []
    summary = {"csvpaths": texts, "records": records, "expected_lines": expected}
    if out["raised"] and empty_at is not None:
        pass   # nothing to read after an empty predecessor: ending the run with an error is admitted
    elif out["raised"]:
        problems.append({"raised": out["raised"]})
    else:
        gdir = os.path.join(sb.root, "archive", "chain")
        rd = [d for d in os.listdir(gdir) if os.path.isdir(os.path.join(gdir, d))]
        for i, (m, o) in enumerate(zip(members, out["members"])):
            if o["lines"] != expected[i] and not (empty_at is not None and i >= empty_at and not o["lines"]):
                problems.append({"stage": i, "expected_lines": expected[i], "observed_lines": o["lines"]})
            if empty_at is not None and i >= empty_at:
                continue
            try:
                with open(os.path.join(gdir, rd[0], m["id"], "manifest.json")) as f:
                    man = json.load(f)
            except Exception as e:  # noqa: BLE001
                problems.append({"stage": i, "manifest": repr(e)})
                continue
            if i >= j:
                want = os.path.join("archive", "chain", rd[0], members[i - 1]["id"], "data.csv")
                got = man.get("actual_data_file") or ""
                if not got.endswith(want) or man.get("source_mode_preceding") is not True:
                    problems.append({"stage": i, "manifest.actual_data_file": got, "expected_suffix": want,
                                     "source_mode_preceding": man.get("source_mode_preceding")})
            else:
                if man.get("source_mode_preceding"):
                    problems.append({"stage": i, "source_mode_preceding": True, "expected": False})
    ok = not problems
    return core.outcome(ok=ok, nontrivial=dropped >= 2, labels=["shape:chain", f"stages:{len(members)}"] + (["via-results-reference"] if case.get("via_ref") else []) + (["empty-predecessor"] if empty_at is not None else []),
                        detail=None if ok else dict(summary, problems=problems[:5]), summary=summary)


def run_refs(case, sb):
    writers = case["writers"]
    tables = case["tables"]
    cols = tables[0]["cols"]
    multi = len(writers) > 1

    def wtext(w, filename):
        comps = [["=", w["var"], [], None, w["expr"]],
                 ["f", "track", [w["var"] + "t"], [["h", w["track_col"]], ["f", "line_number", [], []]]]]
        return common.text_of({"comps": comps, "mode": "AND"}, filename, "1*", comment=f"~ id: {w['id']} ~ ")
    c08.sb_reset_archive(sb)
    cps = real.new_csvpaths()
    problems = []
    finals = []
    import contextlib, io, warnings
    with warnings.catch_warnings(), contextlib.redirect_stdout(io.StringIO()):
        cps.paths_manager.add_named_paths(name="g", paths=[wtext(w, "") for w in writers])
    for k, t in enumerate(tables):
        rel = sb.write_csv(f"in{k}.csv", t["records"])
        with warnings.catch_warnings(), contextlib.redirect_stdout(io.StringIO()):
            cps.file_manager.add_named_file(name=f"f{k}", path=os.path.join(sb.root, rel))
        out = real.run_group(cps, "g", f"f{k}", "collect_paths")
        if out["raised"]:
            return core.outcome(undefined=True, labels=["writer-run-raised"])
        alone = [real.run_path(wtext(w, rel)) for w in writers]
        if any(a["raised"] or a["errors"] for a in alone):
            return core.outcome(undefined=True, labels=["writer-errors"])
        finals.append(alone)
    last = finals[-1]
    last_records = tables[-1]["records"]
    # the reader
    comps = []
    expect = {}
    absent = []
    for i, w in enumerate(writers):
        a = last[i]
        comps.append(["=", f"r{i}", [], None, ["ref", f"$g.variables.{w['var']}"]])
        expect[f"r{i}"] = a["variables"].get(w["var"])
        tv = a["variables"].get(w["var"] + "t") or {}
        keys = sorted(k for k in tv if k.isalnum())
        if keys:
            comps.append(["=", f"t{i}", [], None, ["ref", f"$g.variables.{w['var']}t.{keys[0]}"]])
            expect[f"t{i}"] = tv[keys[0]]
        if isinstance(a["variables"].get(w["var"] + "t"), dict):
            # a tracking key the most recent run did not leave: the reference has no value (never the whole dict)
            comps.append(["=", f"n{i}", [], None, ["ref", f"$g.variables.{w['var']}t.nokey9"]])
            absent.append(f"n{i}")
        if " " not in w["hdr"]:
            ref = f"$g.headers.{w['hdr']}" + (f".{w['id']}" if multi else "")
            comps.append(["=", f"h{i}", [], None, ["ref", ref]])
            idx = [c["name"] for c in cols].index(w["hdr"])
            expect[f"h{i}"] = [ln[idx].strip() for ln in a["lines"] if len(ln) > idx]
    from . import c17
    body = " ".join(c17.rnode(["asg", ["vq", c[1], []], c[4]], c17.Layout(1)) for c in comps)
    htext = f"~ id: reader ~ $[1][ {body} ]"
    with warnings.catch_warnings(), contextlib.redirect_stdout(io.StringIO()):
        cps.paths_manager.add_named_paths(name="h", paths=[htext])
    out = real.run_group(cps, "h", f"f{len(tables) - 1}", "collect_paths")
    summary = {"writers": [wtext(w, "") for w in writers], "reader": htext, "runs": len(tables), "expected": expect}
    if out["raised"]:
        problems.append({"reader_raised": out["raised"]})
    else:
        got = out["members"][0]["variables"]
        for k, v in expect.items():
            if v is None:
                continue
            if core.jsonable(got.get(k)) != core.jsonable(v):
                problems.append({"variable": k, "expected": v, "observed": got.get(k)})
        for k in absent:
            if got.get(k) is not None:
                problems.append({"variable": k, "expected": "no value (the referenced key does not exist in the latest run)", "observed": got.get(k)})
        if out["members"][0]["errors"]:
            problems.append({"reader_errors": out["members"][0]["errors"]})
    differ = len(finals) >= 2 and any(finals[-1][i]["variables"] != finals[-2][i]["variables"] for i in range(len(writers)))
    ok = not problems
    return core.outcome(ok=ok, nontrivial=differ, labels=["shape:refs", f"runs:{len(tables)}", f"writers:{len(writers)}"],
                        detail=None if ok else dict(summary, problems=problems[:5]), summary=summary)


def run_replay(case, sb):
    records = case["table"]["records"]
    rel = sb.write_csv("f.csv", records)
    gtext = common.text_of(case["prog"], "", case["scan"], comment="~ id: src ~ ")
    alone = real.run_path(common.text_of(case["prog"], rel, case["scan"], comment="~ id: src ~ "))
    if alone["raised"] or alone["errors"] or not alone["lines"]:
        return core.outcome(undefined=True, labels=["nothing-to-replay"])
    c08.sb_reset_archive(sb)
    cps = real.new_csvpaths()
    real.setup_group(sb, cps, "g", [gtext], "f", records)
    out = real.run_group(cps, "g", "f", "collect_paths")
    problems = []
    if out["raised"]:
        return core.outcome(undefined=True, labels=["source-run-raised"])
    import contextlib, io, warnings
    with warnings.catch_warnings(), contextlib.redirect_stdout(io.StringIO()):
        cps.paths_manager.add_named_paths(name="y", paths=["~ id: again ~ $[*][ yes() ]"])
    ref = f"$g.results.{case['prefix']}:last.src"
    out2 = real.run_group(cps, "y", ref, "collect_paths")
    summary = {"source": gtext, "reference": ref, "records": records, "expected": alone["lines"]}
    if out2["raised"]:
        problems.append({"replay_raised": out2["raised"]})
    else:
        got = out2["members"][0]["lines"]
        if got != alone["lines"]:
            problems.append({"expected_lines": alone["lines"], "observed_lines": got})
    ok = not problems
    return core.outcome(ok=ok, nontrivial=len(alone["lines"]) >= 2, labels=["shape:replay"],
                        detail=None if ok else dict(summary, problems=problems[:5]), summary=summary)


def run_case(case, sb):
    if case["shape"] == "chain":
        return run_chain(case, sb)
    if case["shape"] == "refs":
        return run_refs(case, sb)
    return run_replay(case, sb)

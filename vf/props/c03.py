"""C03 - variables and run counters end up with the values the csvpath assigns.

case = {"table", "scan", "prog", "watch": [plain variable names printed per line]}
The program is run with observation taps placed FIRST on the line:
  push("t_ln", line_number()) push("t_cl", count_lines()) push("t_cs", count_scans())
  push("t_c", count()) print("L=$.csvpath.line_number; S=$.csvpath.count_scans; x=$.variables.x; ...")
"""
import copy

from hypothesis import strategies as st

from .. import core, real
from ..gen import progs
from . import common

ID = "C03"
LEVEL = "exploration"
RULE = (
    "cases are variable-writing csvpaths (assignments with and without tracking, qualified "
    "assignments, push/push_distinct/tally/counter/sum/subtotal/track/count(x)/first/every with "
    "name qualifiers, when/do) over generated tables and scan windows, with per-line taps; compared: "
    "final variables, scan_count, match_count, per-line line_number()/count_lines()/count_scans()/"
    "count() and per-line printed values of watched variables; non-trivial = some variable's final "
    "value depends on >=2 lines (it changed on >=2 scanned lines); distinct = distinct case hash"
)
ASSUMPTIONS = [
    "oracle: vf/model/refinterp.py (docs/variables.md, docs/assignment.md, docs/functions/*.md)",
    "bookkeeping variables of every() are not compared (docs and code name them differently); counters start at 0",
    "lt/below/before are not generated here (known finding KF-C01-lt-equal is C01's business)",
]

TAPS = [
    ["f", "push", [], [["t", "t_ln"], ["f", "line_number", [], []]]],
    ["f", "push", [], [["t", "t_cl"], ["f", "count_lines", [], []]]],
    ["f", "push", [], [["t", "t_cs"], ["f", "count_scans", [], []]]],
    ["f", "push", [], [["t", "t_c"], ["f", "count", [], []]]],
]
TAPNAMES = {"t_ln", "t_cl", "t_cs", "t_c"}


# thorough tier: additionally a coverage-guided campaign (vf/fuzz.py) over the same strategy and oracle
FUZZ = {"runs": 2000, "procs": 8}

def budget(tier):
    return 2400 if tier == "quick" else 40000


def strip_lt(n):
    """replace the strictly-less family (known finding) by lte"""
    if isinstance(n, list):
        if len(n) == 4 and n[0] == "f" and n[1] in ("lt", "below", "before"):
            n[1] = "lte"
        for x in n:
            strip_lt(x)
    elif isinstance(n, dict):
        strip_lt(n["comps"])
    return n


@st.composite
def _case(draw):
    table = draw(progs.tables(lead_blank=True))
    if draw(st.integers(0, 3)) == 2:
        # header-text-safe programs may scan from line 0 (the header row is a data line too)
        table = progs.text_safe(table, draw)
        scan = draw(progs.scans(table, from_data=False))
    else:
        scan = draw(progs.scans(table))
    prog = draw(progs.programs(
        table, kinds=("assign", "assign", "assign", "se", "se", "se", "when", "b", "every", "first"),
        or_mode=False))
    strip_lt(prog)
    return {"table": table, "scan": scan, "prog": prog,
            "no_matches": draw(st.sampled_from([False, False, False, True]))}


def strategy(tier):
    return _case()


def _watch(prog):
    names = []
    for c in prog["comps"]:
        if c[0] == "=" and c[3] is None and c[1] not in names:
            names.append(c[1])
        if c[0] == "->" and c[2][0] == "=" and c[2][1] not in names:
            names.append(c[2][1])
    return names[:3]


def _counter_names(n, out):
    if isinstance(n, list):
        if len(n) == 4 and n[0] == "f" and n[1] == "counter":
            for q in n[2]:
                out.append(q)
        for x in n:
            _counter_names(x, out)
    return out


def run_case(case, sb):
    records = case["table"]["records"]
    prog = copy.deepcopy(case["prog"])
    watch = _watch(prog)
    tmpl = [["text", "L="], ["ref", "csvpath", "line_number"], ["text", "; S="], ["ref", "csvpath", "count_scans"]]
    for w in watch:
        tmpl += [["text", f"; {w}="], ["ref", "var", w]]
    tmpl += [["text", "; "]]
    tap_print = ["f", "print", [], [["pt", tmpl]]]
    full = {"comps": TAPS + [tap_print] + prog["comps"], "mode": "AND"}
    rel = sb.write_csv("f.csv", records)
    text = common.text_of(full, rel, case["scan"])
    if case.get("no_matches"):
        # the return mode only changes which lines are handed back, not what matched or was counted
        text = common.text_of(full, rel, case["scan"], comment="~ return-mode: no-matches ~ ")
    fns = sorted(progs.functions_used(prog))
    labels = ["fn:" + f for f in fns]
    # model: counters exist from the start
    it_prog = full
    from ..model import refinterp
    it = refinterp.Interp(it_prog, records, common.scanset(case["scan"], len(records)))
    counters = _counter_names(prog["comps"], [])
    for nm in counters:
        it.vars[nm] = 0
    snapshots = []
    orig_render = it.render_print

    def render(t):
        # values of watched variables as the previous line left them; unset -> skip
        vals = {w: copy.deepcopy(it.vars.get(w)) for w in watch}
        snapshots.append({"L": it.pos, "S": it.res.scan_count, "vals": vals})
        return "tap"
    it.render_print = render
    try:
        model = it.run()
    except refinterp.Undefined as u:
        return core.outcome(undefined=True, labels=["undefined:" + str(u)[:40]])
    except (ZeroDivisionError, OverflowError, ValueError) as e:
        return core.outcome(undefined=True, labels=["undefined:arith"])
    res = real.run_path(text)
    summary = {"csvpath": text, "records": records}
    problems = []
    ignore = set(prog.get("ignore_vars", []))
    if res["raised"]:
        problems.append({"raised": res["raised"]})
    else:
        def drop_none(d):
            # reading '@d.key' before it was written leaves {'key': None} behind: not a value the csvpath assigned
            return {k: ({kk: vv for kk, vv in v.items() if vv is not None} if isinstance(v, dict) else v) for k, v in d.items()}
        rv = drop_none(res["variables"])
        mv = drop_none(common.norm_model_vars(model.variables))
        for k, v in mv.items():
            if any(k == g or k.startswith(g + "_") for g in ignore):
                continue
            if k not in rv:
                if v in ([], {}) or v is None or (v == 0 and k in counters):
                    continue
                problems.append({"variable": k, "expected": v, "observed": "<missing>"})
            elif rv[k] != v:
                problems.append({"variable": k, "expected": v, "observed": rv[k]})
        for k, v in rv.items():
            if k in mv or any(k == g or k.startswith(g + "_") for g in ignore):
                continue
            if k.startswith("_intx_") or k.endswith("_once") or k.endswith("_onchange"):
                continue  # internal bookkeeping keys are not variables the csvpath defines
            if v in ([], {}) or v is None:
                continue
            problems.append({"variable": k, "expected": "<absent>", "observed": v})
        if res["scan_count"] != model.scan_count:
            problems.append({"scan_count_expected": model.scan_count, "observed": res["scan_count"]})
        if res["match_count"] != model.match_count:
            problems.append({"match_count_expected": model.match_count, "observed": res["match_count"]})
        # per-line printed taps
        outs = res["printouts"]
        if len(outs) != len(snapshots):
            problems.append({"tap_lines_expected": len(snapshots), "observed": len(outs)})
        else:
            for snap, line in zip(snapshots, outs):
                fields = line.split("; ")
                expf = [f"L={snap['L']}", f"S={snap['S']}"]
                alts = [None, None]
                for w in watch:
                    v = snap["vals"][w]
                    if v is None:
                        # unset (prints its own name) or explicitly None: not fixed by the docs
                        expf.append(None)
                    else:
                        expf.append(f"{w}={v}")
                got = fields[: len(expf)]

                def same(e, g, w=None):
                    if e is None or e == g:
                        return True
                    # a tracking variable prints as a dict: entries whose value is None (left by a read of a key
                    # that was never written) are not fixed by the docs and are ignored on both sides
                    try:
                        import ast
                        k, _, ev = e.partition("=")
                        k2, _, gv = g.partition("=")
                        de, dg = ast.literal_eval(ev), ast.literal_eval(gv)
                        if k == k2 and isinstance(de, dict) and isinstance(dg, dict):
                            return {a: b for a, b in de.items() if b is not None} == {a: b for a, b in dg.items() if b is not None}
                    except (ValueError, SyntaxError):
                        pass
                    return False
                bad = len(got) != len(expf) or any(not same(e, g) for e, g in zip(expf, got))
                if bad:
                    problems.append({"tap_expected": expf, "observed": line})
                    break
        if res["errors"]:
            labels.append("real-errors")
            if problems:
                problems.append({"errors": res["errors"]})
    # non-trivial: a watched or model variable changed on >= 2 different scanned lines
    changes = {}
    prev = None
    for snap in snapshots:
        if prev is not None:
            for w in watch:
                if snap["vals"][w] != prev["vals"][w]:
                    changes[w] = changes.get(w, 0) + 1
        prev = snap
    stacks = [v for k, v in model.variables.items() if isinstance(v, (list, dict)) and k not in TAPNAMES]
    nontrivial = any(c >= 2 for c in changes.values()) or any(len(v) >= 2 for v in stacks)
    ok = not problems
    return core.outcome(ok=ok, nontrivial=nontrivial, labels=labels,
                        detail=None if ok else dict(summary, problems=problems[:6]), summary=summary)

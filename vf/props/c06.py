"""C06 - lines are delivered as they are in the file; headers are the first data line.

case = {"records": [[cell,...],...], "delimiter": d, "quotechar": q, "names": [..] | None}
mode A (names is None): arbitrary unicode cells, collect() of [*][yes()] must be the
non-blank records cell for cell and headers the cleaned first non-blank record.
mode B (names given): record 0 is the tidy header row; #name and #index are pushed to
stacks on every line and must agree, be that cell, and be None on short rows.
"""
import csv
import io

from hypothesis import strategies as st

from .. import core, real

ID = "C06"
LEVEL = "exploration"
RULE = (
    "cases are CSV files written by csv.writer from generated records (0-12 records of 0-6 cells of "
    "arbitrary unicode except CR/surrogates, blank records anywhere, 4 delimiters x 2 quote chars, LF or CRLF "
    "line terminator, minimal or full quoting, with or without a final newline); "
    "non-trivial = some cell contains the delimiter, the quote char, a newline or a non-ASCII "
    "character, or some row's length differs from the header's; distinct = distinct file+dialect"
)
ASSUMPTIONS = [
    "oracle is the generator's own record list (round trip); files Python's csv.reader itself cannot read back are discarded as undefined and counted",
    "header cleaning = strip + removal of ; , | TAB backtick (LineCounter docs)",
    "pushed header values are compared up to surrounding whitespace; #name vs #index exactly",
]

DELIMS = [",", ";", "|", "\t"]
QUOTES = ['"', "'"]
NAME_POOL = ["a", "b2", "first_name", "city", "zip", "Order Number", "x_y", "total"]

# thorough tier: additionally a coverage-guided campaign (vf/fuzz.py) over the same strategy and oracle
FUZZ = {"runs": 3000, "procs": 8}


def budget(tier):
    return 4000 if tier == "quick" else 64000


def _cell(delim, quote):
    special = st.sampled_from(
        [delim, quote, "\n", " ", "\t", ",", ";", "|", "`", "é", "\U0001F600", "中",
         "\x00", " ", "\x0b", "\x1c", "\x85", "'", '"', "#", "$", "[", "]"]
    )
    anych = st.characters(exclude_characters="\r", exclude_categories=["Cs"])
    plain = st.sampled_from(list("abcXYZ019 -_."))
    ch = st.one_of(plain, plain, special, anych)
    return st.lists(ch, max_size=6).map("".join)


@st.composite
def _case(draw):
    delim = draw(st.sampled_from(DELIMS))
    quote = draw(st.sampled_from(QUOTES))
    named = draw(st.booleans())
    cell = _cell(delim, quote)
    # how csv.writer was set up: its default line terminator is CRLF; QUOTE_ALL; a last record without newline
    dialect = {"lineterminator": draw(st.sampled_from(["\n", "\n", "\r\n"])),
               "quote_all": draw(st.sampled_from([False, False, True])),
               "final_newline": draw(st.sampled_from([True, True, False]))}
    if not named:
        records = draw(st.lists(st.lists(cell, max_size=6), max_size=12))
        return {"records": records, "delimiter": delim, "quotechar": quote, "names": None, "dialect": dialect}
    k = draw(st.integers(1, 5))
    names = draw(st.lists(st.sampled_from(NAME_POOL), min_size=k, max_size=k, unique=True))
    lead = draw(st.integers(0, 2))
    rows = draw(st.lists(st.lists(cell, max_size=k + 2), max_size=10))
    records = [[] for _ in range(lead)] + [list(names)] + rows
    return {"records": records, "delimiter": delim, "quotechar": quote, "names": names, "dialect": dialect}


def strategy(tier):
    return _case()


def _written_reads_back(sb, rel, records, d, q):
    with open(rel, "r", encoding="utf-8", newline="") as f:
        back = list(csv.reader(f, delimiter=d, quotechar=q))
    if back == records:
        return True
    # without a final newline trailing blank records are not in the file at all
    while records and back != records and len(records[-1]) == 0:
        records = records[:-1]
    return back == records


def clean_header(h):
    h = h.strip()
    for c in ";,|\t`":
        h = h.replace(c, "")
    return h


def run_case(case, sb):
    records = [list(r) for r in case["records"]]
    d, q, names = case["delimiter"], case["quotechar"], case["names"]
    dia = case.get("dialect") or {}
    try:
        rel = sb.write_csv("f.csv", records, delimiter=d, quotechar=q, **dia)
        if not _written_reads_back(sb, rel, records, d, q):
            return core.outcome(undefined=True, labels=["csv-module-cannot-round-trip"])
    except (csv.Error, UnicodeEncodeError):
        return core.outcome(undefined=True, labels=["csv-module-cannot-write"])
    nonblank = [r for r in records if len(r) > 0]
    labels = ["named" if names else "arbitrary", f"delim:{d!r}", f"quote:{q}"]
    if dia.get("lineterminator") == "\r\n":
        labels.append("crlf")
    if dia.get("quote_all"):
        labels.append("quote-all")
    if dia.get("final_newline") is False:
        labels.append("no-final-newline")
    hdr = nonblank[0] if nonblank else []
    flat = [c for r in records for c in r]
    special = any((d in c) or (q in c) or ("\n" in c) or any(ord(ch) > 127 for ch in c) for c in flat)
    ragged = any(len(r) != len(hdr) for r in nonblank[1:])
    if special:
        labels.append("special-cells")
    if ragged:
        labels.append("ragged")
    if any(len(r) == 0 for r in records):
        labels.append("blank-records")
    if not records:
        labels.append("empty-file")
    if records and not nonblank:
        labels.append("only-blank-records")
    nontrivial = special or ragged
    problems = []
    if names is None:
        text = f"${rel}[*][yes()]"
        res = real.run_path(text, delimiter=d, quotechar=q)
        exp_headers = [clean_header(h) for h in hdr]
        if res["raised"]:
            problems.append({"raised": res["raised"]})
        else:
            if res["lines"] != nonblank:
                problems.append({"lines_expected": nonblank, "lines_observed": res["lines"]})
            if res["headers"] != exp_headers:
                problems.append({"headers_expected": exp_headers, "headers_observed": res["headers"]})
        summary = {"csvpath": text, "delimiter": d, "quotechar": q, "records": records}
    else:
        comps = []
        for i, nm in enumerate(names):
            ref = f'#"{nm}"' if " " in nm else f"#{nm}"
            comps.append(f'push("n{i}", {ref}) push("i{i}", #{i})')
        text = f"${rel}[*][ {' '.join(comps)} ]"
        res = real.run_path(text, delimiter=d, quotechar=q)
        summary = {"csvpath": text, "delimiter": d, "quotechar": q, "records": records}
        if res["raised"]:
            problems.append({"raised": res["raised"]})
        else:
            if res["lines"] != nonblank:
                problems.append({"lines_expected": nonblank, "lines_observed": res["lines"]})
            if res["errors"]:
                problems.append({"errors": res["errors"]})
            if res["is_valid"] is not True:
                problems.append({"is_valid": res["is_valid"]})
            if res["headers"] != names:
                problems.append({"headers_expected": names, "headers_observed": res["headers"]})
            v = res["variables"]
            for i, nm in enumerate(names):
                exp = [(r[i].strip() if i < len(r) else None) for r in nonblank]
                ns, is_ = v.get(f"n{i}", []), v.get(f"i{i}", [])
                if ns != is_:
                    problems.append({"header": nm, "by_name": ns, "by_index": is_})
                got = [x.strip() if isinstance(x, str) else x for x in is_]
                if got != exp:
                    problems.append({"header": nm, "expected": exp, "by_index": is_})
    ok = not problems
    return core.outcome(ok=ok, nontrivial=nontrivial, labels=labels,
                        detail=None if ok else dict(summary, problems=problems), summary=summary)

"""C01 - returned lines are exactly the scanned lines that satisfy the match part.

case = {"table": {...}, "scan": "1*", "prog": {"comps": [...], "mode": "AND"|"OR"}, "via": "collect"|"next"}
"""
from hypothesis import strategies as st

from .. import core, real
from ..gen import progs
from . import common

ID = "C01"
LEVEL = "exploration"
RULE = (
    "cases are (typed csvpath AST of 1-6 components depth<=3, CSV table with ragged rows, blanks, "
    "empty and padded cells, multi-digit numbers, scan part, logic mode) run through collect() or "
    "next(); the oracle is the reference interpreter; non-trivial = the expected result is neither "
    "empty nor all scanned lines, or the program has >=2 components with >=1 function; distinct = "
    "distinct case hash"
)
ASSUMPTIONS = [
    "oracle vf/model/refinterp.py is written from README/docs and answers UNDEFINED where they are silent (case discarded, counted)",
    "programs use dense columns for functions whose treatment of absent values is undocumented (DESIGN 2.4)",
    "scan parts never include the header row (numeric functions on header text are argument errors)",
]


# thorough tier: additionally a coverage-guided campaign (vf/fuzz.py) over the same strategy and oracle
FUZZ = {"runs": 2000, "procs": 8}

def budget(tier):
    return 2400 if tier == "quick" else 40000


@st.composite
def _case(draw):
    table = draw(progs.tables(lead_blank=True))
    if draw(st.integers(0, 3)) == 2:
        # header-text-safe programs may scan from line 0 (the header row is a data line too)
        table = progs.text_safe(table, draw)
        scan = draw(progs.scans(table, from_data=False))
    else:
        scan = draw(progs.scans(table))
    prog = draw(progs.programs(table, kinds=("b", "b", "b", "b", "assign", "when", "se", "every", "first")))
    if draw(st.integers(0, 9)) == 4:
        # whole-row existence tests: every header has data and the row is as long as the header row
        # (rows with a spare or a missing cell are what makes them interesting)
        w = draw(st.sampled_from([["f", "all", [], []], ["f", "missing", [], []], ["f", "not", [], [["f", "all", [], []]]]]))
        prog["comps"].insert(draw(st.integers(0, len(prog["comps"]))), w)
        for r in table["records"][progs.hdr_pos(table) + 1:]:
            if r and len(r) == len(table["cols"]) and draw(st.integers(0, 3)) == 0:
                r.append(draw(st.sampled_from(progs.WORDS + progs.INTS)))
    if draw(st.integers(0, 9)) == 7:
        # and()/or() over three or four arguments, each decisive on its own lines (every argument votes)
        nrec = len(table["records"])
        args = [["f", "in", [], [["h", "id"], ["t", "|".join(f"r{i}" for i in draw(st.lists(st.integers(0, nrec), min_size=1, max_size=nrec + 1, unique=True)))]]]
                for _ in range(draw(st.integers(3, 4)))]
        w = ["f", draw(st.sampled_from(["and", "and", "or"])), [], args]
        if draw(st.integers(0, 3)) == 0:
            w = ["f", "not", [], [w]]
        prog["comps"].insert(draw(st.integers(0, len(prog["comps"]))), w)
    via = draw(st.sampled_from(["collect", "collect", "next"]))
    return {"table": table, "scan": scan, "prog": prog, "via": via}


def strategy(tier):
    return _case()


def run_case(case, sb):
    records = case["table"]["records"]
    prog = case["prog"]
    rel = sb.write_csv("f.csv", records)
    text = common.text_of(prog, rel, case["scan"])
    fns = sorted(progs.functions_used(prog))
    labels = ["fn:" + f for f in fns] + ["mode:" + prog["mode"], "via:" + case["via"]]
    if any(len(r) == 0 for r in records[1:-1]):
        labels.append("interior-blank")
    model, undef = common.model_run(prog, records, case["scan"])
    if model is None:
        return core.outcome(undefined=True, labels=["undefined:" + undef[:40]])
    if "lt_equal" in model.flags and core.finding_active("KF-C01-lt-equal"):
        return core.outcome(excluded="KF-C01-lt-equal", labels=labels)
    res = real.run_path(text, method=case["via"])
    exp_lines = [records[p] for p in model.returned]
    scanned = model.scan_count
    nontrivial = (0 < len(exp_lines) < scanned) or (len(prog["comps"]) >= 2 and any(f not in ("==", "=", "->") for f in fns))
    summary = {"csvpath": text, "records": records, "expected_positions": model.returned}
    problems = []
    if res["raised"]:
        problems.append({"raised": res["raised"]})
    elif res["lines"] != exp_lines:
        problems.append({"expected_lines": exp_lines, "observed_lines": res["lines"]})
    if res["errors"]:
        labels.append("real-errors")
        if problems:
            problems.append({"errors": res["errors"]})
    ok = not problems
    return core.outcome(ok=ok, nontrivial=nontrivial, labels=labels,
                        detail=None if ok else dict(summary, problems=problems), summary=summary)

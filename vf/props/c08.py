"""C08 - a csvpath gives the same results alone, in a serial run and breadth-first.

case = {"table", "members": [{"prog", "scan", "id"}...], "if_all_agree": bool}
Reference = each member run by a standalone CsvPath; compared with the same member under
all six CsvPaths methods (fresh CsvPaths per method).
"""
import os

from hypothesis import strategies as st

from .. import core, real
from ..gen import progs
from . import common

ID = "C08"
LEVEL = "exploration"
RULE = (
    "cases are groups of 1-4 generated csvpaths (no cross-path signals, references or line rewriting), "
    "distinct ids, drawn order, one generated table, if_all_agree drawn; each member's standalone "
    "CsvPath.collect() is the reference for the member under collect_paths, fast_forward_paths, "
    "next_paths, collect_by_line, fast_forward_by_line, next_by_line; the caller-side lines of "
    "breadth-first runs must be the per-line union (intersection with if_all_agree) of the standalone "
    "decisions; non-trivial = >=2 members whose returned sets differ and neither is empty; distinct = case hash"
)
ASSUMPTIONS = [
    "differential oracle: the standalone run (itself checked against the reference interpreter by C01/C03)",
    "if_all_agree is compared only when every member scans to the end of the file (decision of a finished member is unspecified)",
    "printouts are compared exactly when no member collected errors or the configured policy has no 'print'; otherwise by their number (printed error text embeds instance-specific ids)",
    "the [errors] policy of config.ini is drawn per case (without 'raise') and is the same for the standalone and the group runs",
]


# [errors] csvpath = ... of config.ini (no 'raise': an aborted group run is C18's subject)
POLICIES = [["collect", "print"], ["collect", "print"], ["collect"], ["collect", "fail"], ["print", "fail"], ["collect", "stop"], ["quiet", "collect"]]


def budget(tier):
    return 640 if tier == "quick" else 8000


@st.composite
def _case(draw):
    table = draw(progs.tables())
    n = draw(st.integers(1, 4))
    members = []
    # sometimes every member's scan ends inside the file (all members finish before the end)
    bounded_all = draw(st.sampled_from([False, False, True]))
    for i in range(n):
        scan = draw(progs.scans(table))
        if bounded_all and scan.endswith("*"):
            lo = progs.hdr_pos(table) + 1
            hi = max(lo, len(table["records"]) - 2)
            a = draw(st.integers(lo, hi))
            scan = f"{a}-{draw(st.integers(a, hi))}" if draw(st.booleans()) else draw(progs.gap_scans(table))
        prog = draw(progs.programs(table, kinds=("b", "b", "b", "assign", "when", "se", "print", "last"), max_comps=4, depth=2))
        modes = []
        if draw(st.integers(0, 4)) == 2:
            modes.append("return-mode: no-matches")
        if draw(st.integers(0, 5)) == 3:
            modes.append("unmatched-mode: keep")
        if draw(st.integers(0, 4)) == 3:
            # standard out is dropped, every other printer (the test printer, the Result) still gets the lines
            modes.append("print-mode: no-default")
        if draw(st.integers(0, 5)) == 2:
            # the member re-reads its headers from a data line: its own view only, never the line other members see
            nrec = len(table["records"])
            prog["comps"].insert(0, ["->", ["==", ["f", "line_number", [], []], ["t", draw(st.integers(1, max(1, nrec - 1)))]], ["f", "reset_headers", [], []]])
        if draw(st.integers(0, 4)) == 1:
            # a run-time argument error on every scanned line (column 0 holds text): handled per the configured policy
            prog["comps"].insert(draw(st.integers(0, len(prog["comps"]))), ["=", "ez", [], None, ["f", "add", [], [["hi", 0], ["t", 1]]]])
        members.append({"prog": prog, "scan": scan, "id": f"m{i}", "modes": modes,
                        # the identity may be given under any of the documented keys
                        "idkey": draw(st.sampled_from(["id", "id", "id", "Id", "ID", "name", "Name", "NAME"]))})
    if draw(st.sampled_from([False, False, False, True])):
        # a data record repeated verbatim (identical rows are legal CSV)
        rows = [i for i, r in enumerate(table["records"]) if r][1:]
        if rows:
            src = draw(st.sampled_from(rows))
            table["records"].insert(draw(st.integers(src + 1, len(table["records"]))), list(table["records"][src]))
    order = draw(st.permutations(list(range(n))))
    members = [members[i] for i in order]
    return {"table": table, "members": members, "if_all_agree": draw(st.booleans()),
            "delimiter": draw(st.sampled_from([",", ",", ",", ";", "|"])),
            "policy": draw(st.sampled_from(POLICIES))}


def strategy(tier):
    return _case()


def member_text(m, filename=""):
    meta = f"~ {m.get('idkey', 'id')}: {m['id']}" + (" logic-mode: OR" if m["prog"].get("mode") == "OR" else "") + "".join(" " + x for x in m.get("modes", [])) + " ~ "
    return common.text_of(m["prog"], filename, m["scan"], comment=meta)


KEYS = ("variables", "is_valid", "scan_count", "match_count", "errors")


def run_case(case, sb):
    records = case["table"]["records"]
    members = case["members"]
    dl = case.get("delimiter", ",")
    policy = case.get("policy") or ["collect", "print"]
    sb.write_config(policy)
    rel = sb.write_csv("f.csv", records, delimiter=dl)
    # reference: standalone runs
    ref = []
    for m in members:
        r = real.run_path(member_text(m, rel), delimiter=dl)
        ref.append(r)
    labels = [f"members:{len(members)}", f"delimiter:{dl}", "policy:" + "+".join(policy)]
    if any(r["raised"] for r in ref):
        # a program the standalone run rejects is outside this property's relation
        return core.outcome(undefined=True, labels=["standalone-raised"])
    any_errors = any(r["errors"] for r in ref)
    if any_errors:
        labels.append("with-errors")
    ref_ids = [[(ln[0] if ln else None) for ln in r["lines"]] for r in ref]
    # (a member the 'stop' policy halted at its first error is a finished member too)
    to_end = all(m["scan"].endswith("*") for m in members) and not ("stop" in policy and any_errors)
    file_ids = [r[0] for r in records if r]
    union = [i for i in file_ids if any(i in ids for ids in ref_ids)]
    inter = [i for i in file_ids if all(i in ids for ids in ref_ids)]
    problems = []
    texts = [member_text(m) for m in members]
    byline_yield = {}
    dups = len(set(tuple(r) for r in records if r)) != len([r for r in records if r])
    if dups:
        labels.append("duplicate-rows")
    for method in real.METHODS:
        sb_reset_archive(sb)
        cps = real.new_csvpaths(delimiter=dl)
        real.setup_group(sb, cps, "g", texts, "f", records, delimiter=dl)
        out = real.run_group(cps, "g", "f", method, if_all_agree=case["if_all_agree"])
        if out["raised"]:
            problems.append({"method": method, "raised": out["raised"]})
            continue
        if len(out["members"]) != len(members):
            problems.append({"method": method, "members_expected": len(members), "observed": len(out["members"])})
            continue
        for i, (m, r, o) in enumerate(zip(members, ref, out["members"])):
            if "state_error" in o:
                problems.append({"method": method, "member": m["id"], "state_error": o["state_error"]})
                continue
            if o["identity"] != m["id"]:
                problems.append({"method": method, "member": m["id"], "identity_observed": o["identity"]})
            for k in KEYS:
                if o[k] != r[k]:
                    problems.append({"method": method, "member": m["id"], "field": k, "standalone": r[k], "group": o[k]})
            if (not any_errors or "print" not in policy) and o["printouts"] != r["printouts"]:
                problems.append({"method": method, "member": m["id"], "field": "printouts", "standalone": r["printouts"], "group": o["printouts"]})
            elif len(o["printouts"]) != len(r["printouts"]):
                problems.append({"method": method, "member": m["id"], "field": "number of printouts", "standalone": r["printouts"], "group": o["printouts"]})
            if method in ("collect_paths", "collect_by_line"):
                if dl != ",":
                    # data.csv is always written in the default dialect: read it back that way
                    from . import c09
                    dp = out["_results"][i].data_file_path
                    o = dict(o, lines=(c09.read_csv(dp) if os.path.isfile(dp) else []))
                if o["lines"] != r["lines"]:
                    problems.append({"method": method, "member": m["id"], "field": "lines", "standalone": r["lines"], "group": o["lines"]})
        if method == "next_paths":
            exp = [ln for r in ref for ln in r["lines"]]
            if out["yielded"] != exp:
                problems.append({"method": method, "yielded_expected": exp, "observed": out["yielded"]})
        if method in ("collect_by_line", "next_by_line"):
            byline_yield[method] = out["yielded"]
            got = [(ln[0] if ln else None) for ln in out["yielded"]]
            if dups:
                continue   # with identical rows the id-based union is not well defined; see the relation below
            if not case["if_all_agree"]:
                if got != union:
                    problems.append({"method": method, "yielded_union_expected": union, "observed": got})
            elif to_end:
                if got != inter:
                    problems.append({"method": method, "yielded_intersection_expected": inter, "observed": got})
            else:
                # members finish at different lines: whatever a finished member's vote is taken to be,
                # a yielded line was returned by at least one member, once, in file order
                if any(g not in union for g in got) or len(got) != len(set(got)) or got != [i for i in file_ids if i in got]:
                    problems.append({"method": method, "yielded_not_within_union": got, "union": union})
        if len(problems) > 6:
            break
    if len(byline_yield) == 2 and byline_yield["collect_by_line"] != byline_yield["next_by_line"]:
        problems.append({"collect_by_line_yielded": byline_yield["collect_by_line"], "next_by_line_yielded": byline_yield["next_by_line"]})
    sets = [tuple(x) for x in ref_ids]
    nontrivial = len(members) >= 2 and len(set(sets)) >= 2 and sum(1 for s in sets if s) >= 2
    if case["if_all_agree"]:
        labels.append("if_all_agree")
    ok = not problems
    summary = {"csvpaths": texts, "records": records, "if_all_agree": case["if_all_agree"], "standalone_ids": ref_ids}
    return core.outcome(ok=ok, nontrivial=nontrivial, labels=labels,
                        detail=None if ok else dict(summary, problems=problems[:8]), summary=summary)


def sb_reset_archive(sb):
    import shutil
    for d in ("archive", "inputs", "cache", "transfers"):
        p = os.path.join(sb.root, d)
        if os.path.isdir(p):
            shutil.rmtree(p, ignore_errors=True)

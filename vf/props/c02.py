"""C02 - the scan part selects exactly the lines it denotes.

case = {"scan": "0-3+9", "n": records in file, "blanks": [positions of blank records]}
Every record i holds the single cell "r<i>", so returned lines map back to positions.
"""
import itertools

from hypothesis import strategies as st

from .. import core, real
from ..model import scanmodel

ID = "C02"
LEVEL = "exploration"
RULE = (
    "cases are (scan string, file) pairs: every '*', 'N*', 'a-b' (both orders) and '+'-list "
    "(ascending, non-overlapping, <=4 terms) with bounds 0..L+2 over files of L+1 records "
    "with blank records at enumerated/drawn positions; non-trivial = the denoted set is a "
    "proper non-empty subset of the file's non-blank records; distinct = distinct (scan, n, blanks)"
)
ASSUMPTIONS = [
    "files with no non-blank record are not generated (an empty file is C06's business)",
    "oracle is vf/model/scanmodel.py (set algebra from README), independent of csvpath",
]
ENUM_EXHAUSTIVE = {
    "quick": "all scan shapes with bounds 0..L+2 on blank-free files, L=0..5",
    "thorough": "all scan shapes with bounds 0..L+2 x all blank-position subsets (>=1 non-blank record), L=0..5",
}


def budget(tier):
    return 2000 if tier == "quick" else 100000


def enumerate_cases(tier, seed):
    for L in range(0, 6):
        n = L + 1
        shapes = scanmodel.all_shapes(L + 2)
        if tier == "quick":
            blanksets = [()]
        else:
            blanksets = [
                bs
                for k in range(0, n)
                for bs in itertools.combinations(range(n), k)
            ]
        for bs in blanksets:
            for s in shapes:
                yield {"scan": s, "n": n, "blanks": list(bs)}


@st.composite
def _scan(draw, bound):
    kind = draw(st.sampled_from(["star", "nstar", "range", "list", "list", "list"]))
    if kind == "star":
        return "*"
    if kind == "nstar":
        return f"{draw(st.integers(0, bound))}*"
    if kind == "range":
        return f"{draw(st.integers(0, bound))}-{draw(st.integers(0, bound))}"
    nterms = draw(st.integers(1, 4))
    # construct ascending non-overlapping terms from sorted distinct points
    pts = draw(
        st.lists(st.integers(0, bound), min_size=1, max_size=2 * nterms, unique=True)
    )
    pts.sort()
    terms = []
    i = 0
    while i < len(pts) and len(terms) < nterms:
        if i + 1 < len(pts) and draw(st.booleans()):
            terms.append(f"{pts[i]}-{pts[i+1]}")
            i += 2
        else:
            terms.append(str(pts[i]))
            i += 1
    return "+".join(terms)


@st.composite
def _case(draw):
    L = draw(st.integers(0, 9))
    n = L + 1
    scan = draw(_scan(L + 2))
    blanks = draw(st.lists(st.integers(0, n - 1), max_size=n - 1, unique=True))
    blanks.sort()
    return {"scan": scan, "n": n, "blanks": blanks}


def strategy(tier):
    return _case()


def run_case(case, sb):
    n, blanks, scan = case["n"], set(case["blanks"]), case["scan"]
    records = [[] if i in blanks else [f"r{i}"] for i in range(n)]
    nonblank = [i for i in range(n) if i not in blanks]
    labels = []
    if not nonblank:
        return core.outcome(undefined=True, labels=["no-data"])
    rel = sb.write_csv("f.csv", records)
    denoted = [i for i in scanmodel.denote(scan, n) if i not in blanks]
    text = f'${rel}[{scan}][ push("ln", line_number()) yes() ]'
    res = real.run_path(text)
    exp_lines = [[f"r{i}"] for i in denoted]
    obs = {
        "raised": res["raised"],
        "lines": res["lines"],
        "scan_count": res["scan_count"],
        "ln": (res["variables"] or {}).get("ln", []),
    }
    exp = {"raised": None, "lines": exp_lines, "scan_count": len(denoted), "ln": denoted}
    kind = "star" if scan == "*" else "nstar" if scan.endswith("*") else "list" if "+" in scan else "range" if "-" in scan else "single"
    labels.append(kind)
    if blanks:
        labels.append("blanks")
    if (n - 1) in blanks:
        labels.append("trailing-blank")
    if any(t.split("-")[0] == "0" or t.endswith("-0") for t in scan.replace("*", "").split("+") if t):
        labels.append("touches-line-0")
    nontrivial = 0 < len(denoted) < len(nonblank)
    ok = obs == exp
    return core.outcome(
        ok=ok,
        nontrivial=nontrivial,
        labels=labels,
        detail=None if ok else {"csvpath": text, "records": records, "expected": exp, "observed": obs},
        summary={"csvpath": text, "records": records, "expected_positions": denoted},
    )

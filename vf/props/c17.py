"""C17 - what runs is what was written: parsing is unambiguous and layout-insensitive.

case = {"kind": "struct", "comps": [...], "layouts": [seed,...]}   structural ASTs over every function
       name the factory resolves (arity 0-4, no arity validation: LarkParser + LarkTransformer)
     | {"kind": "typed", "table", "scan", "prog", "layouts": [...]}  runnable typed programs through
       CsvPath.parse (Matcher.expressions) and a run per layout
"""
import contextlib
import io
import warnings

from hypothesis import strategies as st

from .. import core, real
from ..gen import progs, render
from . import common

ID = "C17"
LEVEL = "exploration"
RULE = (
    "cases are ASTs rendered in 3 random layouts (whitespace/newlines between components and around "
    "operators and commas, inner ~comments~ between components): (1) structural ASTs over all component "
    "kinds and every function name the factory resolves (arity 0-4), qualifiers (well-known and arbitrary), "
    "quoted headers, signed/decimal numbers, regex terms, references, nesting <=4, parsed by LarkParser + "
    "LarkTransformer; (2) runnable typed programs parsed by CsvPath.parse and run; oracle = normalised "
    "dump of the source AST; no _ambig node; all layouts give identical dumps and run results; an outer "
    "comment without modes changes nothing; non-trivial = >=3 components, depth >=2, >=1 qualifier and a "
    "layout with an inner comment or a newline inside an argument list; distinct = case hash"
)
ASSUMPTIONS = [
    "exponent-notation numbers, '\"' inside strings and '~' inside strings are not generated (not documented)",
    "the expected tree is the generator's AST; the renderer (vf/gen/render.py) is the only place that knows concrete syntax",
]

CANDIDATES = """count has_matches length regex exact not now thisyear thismonth today in concat lower upper percent
below lt before lte above gt after gte first firstline firstscan firstmatch count_lines count_scans or no false yes true
max min average median random shuffle decimal integer end add string boolean subtract minus multiply divide tally every
print increment header_name header_index header_names_mismatch substring stop fail_and_stop stop_all variables headers any
none blank nonspecific wildcard line last exists mod equals eq strip jinja count_headers count_headers_in_line percent_unique
missing all total_lines push push_distinct pop peek peek_size size date datetime fail fail_all failed valid stack stdev pstdev
has_dups count_dups dup_lines empty advance advance_all collect replace append int float and track sum subtotal reset_headers
starts_with skip skip_all mismatch line_number after_blank round import print_line print_queue min_length max_length too_long
too_short between inside beyond outside from_to range get put debug log brief_stack_trace vote_stack do_when_stack metaphone
header_table row_table var_table run_table empty_stack line_fingerprint file_fingerprint counter""".split()
QUALS = ["onmatch", "onchange", "asbool", "nocontrib", "latch", "increase", "decrease", "notnone", "once", "distinct"]
ARB = ["total", "my_name", "k9", "x", "Frogs", "ByLast", "UPPER", "camelCase"]
HEADERS = ["a", "b2", "first_name", "Order Number", "x_y", "0", "12", "Last Year Number", ".ext", "a.b", "v1.2 beta", "No."]
STRCH = list("abcXYZ 019_-+*/\\!?,;:%&()<>{}|^@#'`.=$[]")
# outer comments without mode settings (free text avoids ~ [ ] $, the characters C15's statement excludes from comment text)
OUTER = ["A plain outer comment, author: me description: layout test", "just a note, nothing else", "a trailing remark", "", "  ",
         "100% done! (see #12) & more; mail a@b.c", "two lines\n   of remarks, title: T1", "parens (y) and braces {z}, 3 < 4 > 2"]
_FNS = None


def fn_names():
    global _FNS
    if _FNS is None:
        from csvpath.matching.functions.function_factory import FunctionFactory
        ok = []
        with warnings.catch_warnings(), contextlib.redirect_stdout(io.StringIO()):
            for n in CANDIDATES:
                try:
                    if FunctionFactory.get_function(None, name=n, find_external_functions=False) is not None:
                        ok.append(n)
                except Exception:  # noqa: BLE001
                    pass
        _FNS = sorted(set(ok))
    return _FNS

# thorough tier: additionally a coverage-guided campaign (vf/fuzz.py) over the same strategy and oracle
FUZZ = {"runs": 2500, "procs": 8}


def budget(tier):
    return 4800 if tier == "quick" else 96000


def _string(draw):
    n = draw(st.integers(0, 8))
    return "".join(draw(st.lists(st.sampled_from(STRCH), min_size=n, max_size=n)))


def _term(draw):
    k = draw(st.sampled_from(["s", "s", "i", "f", "neg", "rx"]))
    if k == "s":
        return ["t", _string(draw)]
    if k == "i":
        return ["t", draw(st.integers(0, 12345))]
    if k == "f":
        return ["t", draw(st.sampled_from([0.5, 1.0, 12.25, 100.125, 3.0]))]
    if k == "neg":
        return ["t", draw(st.sampled_from([-1, -30, -0.5, -12.25]))]
    return ["rx", draw(st.sampled_from(["ab+c", "^x.*y$", "[a-z]+", "\\\\d{2}", "a|b", "(foo)?bar", 'said "yes"', '"+', "it's", "a b"]))]


def _quals(draw):
    n = draw(st.sampled_from([0, 0, 0, 1, 1, 2, 3]))
    return draw(st.lists(st.sampled_from(QUALS + ARB), min_size=n, max_size=n, unique=True))


def _hdr(draw):
    name = draw(st.sampled_from(HEADERS))
    quoted = any(not (c.isalnum() or c == "_") for c in name)
    # (the grammar has no place for qualifiers on a quoted header name)
    return ["hq", name, _quals(draw) if (not quoted and draw(st.integers(0, 3)) == 0) else []]


def _var(draw):
    return ["vq", draw(st.sampled_from(["x", "y", "total", "v_1", "n2", "Total", "myVar"])), _quals(draw)]


def _ref(draw):
    return ["ref", draw(st.sampled_from(["$orders.variables.total", "$g.headers.city", "$food.variables.c.key", "$a_b.headers.x"]))]


def _fn(draw, depth, names):
    name = draw(st.sampled_from(names))
    n = draw(st.sampled_from([0, 1, 1, 2, 2, 3, 4]))
    args = [_arg(draw, depth - 1, names) for _ in range(n)]
    return ["f", name, _quals(draw), args]


def _left(draw, depth, names):
    k = draw(st.sampled_from(["h", "v", "f", "f"]))
    if k == "h":
        return _hdr(draw)
    if k == "v":
        return _var(draw)
    return _fn(draw, depth, names)


def _arg(draw, depth, names):
    ks = ["t", "t", "h", "v", "ref"]
    if depth > 0:
        ks += ["f", "f", "eq"]
    k = draw(st.sampled_from(ks))
    if k == "t":
        return _term(draw)
    if k == "h":
        return _hdr(draw)
    if k == "v":
        return _var(draw)
    if k == "ref":
        return _ref(draw)
    if k == "f":
        return _fn(draw, depth, names)
    return ["==", _left(draw, depth - 1, names), _right(draw, depth - 1, names)]


def _right(draw, depth, names):
    k = draw(st.sampled_from(["left", "left", "ref", "term", "term"]))
    if k == "left":
        return _left(draw, depth, names)
    if k == "ref":
        return _ref(draw)
    return _term(draw)


def _action(draw, depth, names):
    if draw(st.booleans()):
        return _fn(draw, depth, names)
    return ["asg", _var(draw), _right(draw, depth, names)]


def _component(draw, names):
    depth = draw(st.integers(0, 3))
    k = draw(st.sampled_from(["left", "left", "leftwhen", "eq", "eqwhen", "asg", "ref"]))
    if k == "left":
        return _left(draw, depth, names)
    if k == "leftwhen":
        return ["->", _left(draw, depth, names), _action(draw, depth, names)]
    if k == "eq":
        return ["==", _left(draw, depth, names), _right(draw, depth, names)]
    if k == "eqwhen":
        return ["->", ["==", _left(draw, depth, names), _right(draw, depth, names)], _action(draw, depth, names)]
    if k == "ref":
        r = _ref(draw)
        return ["->", r, _action(draw, depth, names)] if draw(st.booleans()) else r
    return ["asg", _var(draw), _right(draw, depth, names)]


@st.composite
def _case(draw):
    if draw(st.integers(0, 3)) == 3:
        table = draw(progs.tables(min_rows=1, max_rows=4))
        prog = draw(progs.programs(table, kinds=("b", "b", "assign", "when", "se", "print", "every", "first")))
        return {"kind": "typed", "table": table, "scan": draw(progs.scans(table)), "prog": prog,
                "layouts": draw(st.lists(st.integers(0, 10 ** 6), min_size=3, max_size=3))}
    names = fn_names()
    n = draw(st.integers(1, 6))
    comps = [_component(draw, names) for _ in range(n)]
    return {"kind": "struct", "comps": comps, "layouts": draw(st.lists(st.integers(0, 10 ** 6), min_size=3, max_size=3))}


def strategy(tier):
    return _case()


# ------------------------------------------------------------------ rendering with layout
class Layout:
    """deterministic pseudo-random layout choices from an integer (drawn by Hypothesis)"""

    def __init__(self, seed):
        self.state = seed * 2654435761 % (2 ** 32) or 1
        self.inner_comment = False
        self.newline_in_args = False
        self.crlf = False

    def pick(self, options):
        self.state = (self.state * 1103515245 + 12345) % (2 ** 31)
        return options[(self.state >> 8) % len(options)]

    def ws(self):
        w = self.pick(["", "", " ", "  ", "\n", "\n    ", "\t", "\r\n  "])
        if "\n" in w:
            self.newline_in_args = True
        return w

    def sep(self):
        s = self.pick([" ", "\n", "\n   ", " ~ inner comment ~ ", "\n ~ note: with, punctuation (and) more ~\n", "   ",
                       "\r\n", "\r\n\t", " \f "])
        if "\r" in s or "\f" in s:
            self.crlf = True
        if "~" in s:
            self.inner_comment = True
        return s


def rnode(n, lay):
    k = n[0]
    w = lay.ws
    if k == "hq":
        nm = n[1]
        ref = f'#"{nm}"' if any(not (c.isalnum() or c == "_") for c in nm) else f"#{nm}"
        return ref + "".join("." + q for q in n[2])
    if k == "vq":
        return f"@{n[1]}" + "".join("." + q for q in n[2])
    if k == "ref":
        return n[1]
    if k == "asg":
        return f"{rnode(n[1], lay)}{lay.pick(['', ' '])}={lay.pick(['', ' '])}{rnode(n[2], lay)}"
    if k == "f":
        _, name, quals, args = n
        q = "".join("." + x for x in quals)
        inner = ",".join(w() + rnode(a, lay) + w() for a in args)
        if not args:
            inner = lay.pick(["", " ", ""])
        return f"{name}{q}({inner})"
    if k == "==":
        return f"{rnode(n[1], lay)}{lay.pick(['', ' '])}=={lay.pick(['', ' ', '  '])}{rnode(n[2], lay)}"
    if k == "->":
        # '-' is a legal name character, so '#a->' would lex as the header 'a-': keep whitespace before '->'
        return f"{rnode(n[1], lay)}{lay.pick([' ', '  ', '\n  '])}->{lay.pick(['', ' ', '\n  '])}{rnode(n[2], lay)}"
    if k == "=":
        _, name, quals, track, rhs = n
        t = f".{track}" if track is not None else ""
        q = "".join("." + x for x in quals)
        return f"@{name}{t}{q}{lay.pick(['', ' '])}={lay.pick(['', ' '])}{rnode(rhs, lay)}"
    return render.node(n)


def rmatch(comps, lay):
    body = lay.pick(["", " ", "\n"])
    for i, c in enumerate(comps):
        body += (lay.sep() if i else "") + rnode(c, lay)
    if lay.pick([0, 0, 1]):
        body += " ~ trailing inner comment ~"
        lay.inner_comment = True
    return "[" + body + lay.pick(["", " ", "\n"]) + "]"


# ------------------------------------------------------------------ dumps
def dump_src(n):
    k = n[0]
    if k in ("hq", "h"):
        return {"k": "header", "name": n[1], "quals": list(n[2]) if k == "hq" else []}
    if k == "hi":
        return {"k": "header", "name": str(n[1]), "quals": []}
    if k in ("vq",):
        return {"k": "variable", "name": n[1], "quals": list(n[2])}
    if k == "v":
        return {"k": "variable", "name": n[1], "quals": []}
    if k == "vt":
        return {"k": "variable", "name": n[1], "quals": [str(n[2])]}
    if k == "ref":
        return {"k": "reference", "name": n[1][1:]}
    if k == "t":
        return {"k": "term", "value": n[1], "type": type(n[1]).__name__}
    if k == "pt":
        return {"k": "term", "value": render.print_template(n[1]), "type": "str"}
    if k == "rx":
        return {"k": "term", "value": "/" + n[1] + "/", "type": "str"}
    if k == "f":
        return {"k": "function", "name": n[1], "quals": list(n[2]), "args": [dump_src(a) for a in n[3]]}
    if k == "==":
        return {"k": "equality", "op": "==", "l": dump_src(n[1]), "r": dump_src(n[2])}
    if k == "->":
        return {"k": "equality", "op": "->", "l": dump_src(n[1]), "r": dump_src(n[2])}
    if k == "asg":
        return {"k": "equality", "op": "=", "l": dump_src(n[1]), "r": dump_src(n[2])}
    if k == "=":
        quals = ([str(n[3])] if n[3] is not None else []) + list(n[2])
        return {"k": "equality", "op": "=", "l": {"k": "variable", "name": n[1], "quals": quals}, "r": dump_src(n[4])}
    raise ValueError(n)


def dump_real(o):
    from csvpath.matching.productions import Equality, Expression, Header, Reference, Term, Variable
    from csvpath.matching.functions.function import Function
    if isinstance(o, Expression):
        ch = o.children
        if len(ch) != 1:
            return {"k": "expression", "children": [dump_real(c) for c in ch]}
        return dump_real(ch[0])
    if isinstance(o, Function):
        ch = o.children
        if len(ch) == 0:
            args = []
        elif len(ch) == 1 and isinstance(ch[0], Equality) and ch[0].op == ",":
            args = [dump_real(c) for c in ch[0].children]
        else:
            args = [dump_real(c) for c in ch]
        return {"k": "function", "name": o.name, "quals": list(o.qualifiers or []), "args": args}
    if isinstance(o, Equality):
        return {"k": "equality", "op": o.op, "l": dump_real(o.left), "r": dump_real(o.right)}
    if isinstance(o, Header):
        return {"k": "header", "name": o.name, "quals": list(o.qualifiers or [])}
    if isinstance(o, Variable):
        return {"k": "variable", "name": o.name, "quals": list(o.qualifiers or [])}
    if isinstance(o, Reference):
        return {"k": "reference", "name": getattr(o, "qualified_name", None) or o.name}
    if isinstance(o, Term):
        return {"k": "term", "value": o.value, "type": type(o.value).__name__}
    return {"k": "unknown", "repr": repr(o)}


_MATCHER = []


def stub_matcher():
    """a real Matcher to hand to the transformer (function construction needs one)"""
    if not _MATCHER:
        from csvpath import CsvPath
        from csvpath.matching.matcher import Matcher
        p = CsvPath()
        _MATCHER.append(Matcher(csvpath=p, data="[yes()]", line=None, headers=None))
    return _MATCHER[0]


def _all_quals(d):
    if isinstance(d, dict):
        yield from d.get("quals", [])
        for v in d.values():
            yield from _all_quals(v)
    elif isinstance(d, list):
        for v in d:
            yield from _all_quals(v)


def widen_literal(comps):
    """copy of the components in which the first literal containing a blank has that blank doubled"""
    import copy
    out = copy.deepcopy(comps)
    done = [False]

    def walk(n):
        if done[0] or not isinstance(n, list):
            return
        if n and n[0] in ("t", "rx") and isinstance(n[1], str) and " " in n[1].strip() and "  " not in n[1]:
            i = n[1].strip().index(" ") + (len(n[1]) - len(n[1].lstrip()))
            n[1] = n[1][:i] + " " + n[1][i:]
            done[0] = True
            return
        if n and n[0] == "hq" and " " in n[1] and "  " not in n[1]:
            n[1] = n[1].replace(" ", "  ", 1)
            done[0] = True
            return
        for x in n:
            walk(x)
    walk(out)
    return out if done[0] else None


def has_ambig(tree):
    for t in tree.iter_subtrees():
        if t.data == "_ambig":
            return True
    return False


def run_case(case, sb):
    problems = []
    labels = ["kind:" + case["kind"]]
    comps = case["comps"] if case["kind"] == "struct" else case["prog"]["comps"]
    src = [dump_src(c) for c in comps]
    lays = [Layout(s) for s in case["layouts"]]
    texts = [rmatch(comps, lay) for lay in lays]

    def depth(n):
        return 1 + max([depth(x) for x in n if isinstance(x, list)] or [0]) if isinstance(n, list) else 0
    has_q = "'quals': ['" in str(src)
    nontrivial = len(comps) >= 3 and max(depth(c) for c in comps) >= 3 and has_q and any(l.inner_comment or l.newline_in_args for l in lays)
    if any(l.crlf for l in lays):
        labels.append("layout:crlf-or-formfeed")
    if any(ch.isupper() for ch in "".join(str(q) for q in _all_quals(src))):
        labels.append("qualifier:mixed-case")
    summary = {"texts": texts[:2]}
    with warnings.catch_warnings(), contextlib.redirect_stdout(io.StringIO()):
        if case["kind"] == "struct":
            from csvpath.matching.lark_parser import LarkParser
            from csvpath.matching.lark_transformer import LarkTransformer
            for text in texts:
                try:
                    tree = LarkParser().parse(text)
                    if has_ambig(tree):
                        problems.append({"text": text, "ambiguous": True})
                        break
                    es = LarkTransformer(stub_matcher()).transform(tree)
                    got = [dump_real(e) for e in es]
                except Exception as e:  # noqa: BLE001
                    problems.append({"text": text, "raised": core.Raised(e).to_json()})
                    break
                if got != src:
                    problems.append({"text": text, "expected_tree": src, "observed_tree": got})
                    break
            sib = None if problems else widen_literal(comps)
            if sib is not None:
                # a sibling csvpath parsed in the same process: one literal (string, regex or quoted header name)
                # has a doubled blank inside; the same layout otherwise. Its tree differs in that literal only.
                labels.append("sibling:blank-inside-literal")
                text2 = rmatch(sib, Layout(case["layouts"][0]))
                try:
                    tree = LarkParser().parse(text2)
                    got2 = [dump_real(e) for e in LarkTransformer(stub_matcher()).transform(tree)]
                    if got2 != [dump_src(c) for c in sib]:
                        problems.append({"text": text2, "parsed_after": texts[0], "expected_tree": [dump_src(c) for c in sib], "observed_tree": got2})
                except Exception as e:  # noqa: BLE001
                    problems.append({"text": text2, "raised": core.Raised(e).to_json()})
        else:
            records = case["table"]["records"]
            rel = sb.write_csv("f.csv", records)
            results = []
            for i, text in enumerate(texts):
                full = f"${rel}[{case['scan']}]{text}"
                if case["prog"].get("mode") == "OR":
                    full = "~ logic-mode: OR ~ " + full
                elif i == 2:
                    full = f"~ {lays[0].pick(OUTER)} ~\n" + full
                from csvpath import CsvPath
                try:
                    m = CsvPath().parse(full, disposably=True)
                    got = [dump_real(e[0]) for e in m.expressions]
                except Exception as e:  # noqa: BLE001
                    problems.append({"text": full, "raised": core.Raised(e).to_json()})
                    break
                if got != src:
                    problems.append({"text": full, "expected_tree": src, "observed_tree": got})
                    break
                r = real.run_path(full)
                results.append({k: r[k] for k in ("lines", "variables", "scan_count", "match_count", "is_valid", "errors", "printouts", "raised")})
            if not problems and any(r != results[0] for r in results[1:]):
                problems.append({"layouts_disagree": results, "texts": texts})
            if not problems:
                # the same csvpath configured through the API (logic mode / return mode set in code):
                # an outer comment without mode settings must not change the run
                for api in ("OR", "collect_when_not_matched"):
                    def pre(p, api=api):
                        setattr(p, api, True)
                    plain = f"${rel}[{case['scan']}]{texts[0]}"
                    noted = f"~ {lays[0].pick(OUTER)} ~\n" + plain
                    after = plain + f"\n~ {lays[0].pick(OUTER)} ~"
                    ra = real.run_path(plain, pre=pre)
                    for other in (noted, after):
                        rb = real.run_path(other, pre=pre)
                        ka = {k: ra[k] for k in ("lines", "variables", "scan_count", "match_count", "is_valid", "printouts", "raised")}
                        kb = {k: rb[k] for k in ("lines", "variables", "scan_count", "match_count", "is_valid", "printouts", "raised")}
                        if ka != kb:
                            problems.append({"api_setting": api, "without_comment": plain, "with_comment": other, "a": ka, "b": kb})
                            break
                    if problems:
                        break
    ok = not problems
    return core.outcome(ok=ok, nontrivial=nontrivial, labels=labels,
                        detail=None if ok else dict(summary, problems=problems[:3]), summary=summary)

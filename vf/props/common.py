"""helpers shared by the reference-interpreter properties (C01, C03, C04, C13, C16)"""
from .. import core, real
from ..gen import render
from ..model import refinterp, scanmodel


def scanset(scan, n):
    return set(scanmodel.denote(scan, n + 64))


def model_run(prog, records, scan):
    """-> (Result | None, undefined reason | None)"""
    it = refinterp.Interp(prog, records, scanset(scan, len(records)))
    try:
        return it.run(), None
    except refinterp.Undefined as u:
        return None, str(u)
    except ZeroDivisionError:
        return None, "zero division in the model"
    except (OverflowError, ValueError) as e:
        return None, f"arithmetic domain: {e}"


def text_of(prog, rel, scan, **kw):
    return render.program(prog, rel, scan, **kw)


def norm_vars(v, ignore=()):
    """csvpath variables -> comparable JSON: tuples to lists, dict keys to str, floats kept"""
    out = {}
    for k, x in (v or {}).items():
        if k in ignore:
            continue
        out[k] = core.jsonable(x)
    return out


def norm_model_vars(v, ignore=()):
    out = {}
    for k, x in v.items():
        if k in ignore:
            continue
        out[k] = core.jsonable(x)
    return out

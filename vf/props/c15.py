"""C15 - comment mode settings take effect; matched and unmatched partition the file.

case = {"table","scan","prog","free":str,"fields":[[k,v]...],"tail":str,"after":bool,"positions":[...]}
"""
from hypothesis import strategies as st

from .. import core, real
from ..gen import progs
from ..model import scanmodel
from . import common

ID = "C15"
LEVEL = "exploration"
RULE = (
    "cases are generated csvpaths x outer comments made of free text, 0-4 'key: value' metadata fields "
    "(values of several words with punctuation), a stand-alone-colon tail, placed before or after the "
    "path, with each mode setting inserted at a drawn position among the fields; relations: metadata "
    "captured and run unchanged by a mode-free comment; messy comment with modes == minimal comment with "
    "the same modes; no-matches is the exact complement of the default over the scanned lines; no-run does "
    "nothing; no-default silences standard out only; unmatched-mode keep partitions the records read; "
    "non-trivial = >=2 fields plus free text and a matched set that is a proper non-empty subset; distinct = case hash"
)
ASSUMPTIONS = [
    "comment text avoids ~ [ ] $ (statement) and ':' outside fields; values start with a word",
    "metadata values are compared word for word (whitespace-normalised)",
    "programs contain no stop/skip/advance, so 'where the run ended' is the scan's last line or end of file",
    "blank records count as records read: they are expected in CsvPath.unmatched (as empty lists), as the statement's 'exactly the records read' says",
]
WORDS = ["alpha", "beta", "v2", "draft", "ops-team", "x_1", "Checks", "the", "orders", "file", "2024", "Q3"]
PUNCT = [",", ".", ";", "!", "?", "(", ")", "'", "/", "+", "*", "=", "&", "%", "@", "#", '"', "<", ">"]
KEYS = ["author", "description", "ticket", "owner", "Note", "rev-2", "team_name", "date"]
MODES = {
    "return-mode": ["matches", "no-matches"],
    "unmatched-mode": ["keep", "no-keep"],
    "run-mode": ["run", "no-run"],
    "print-mode": ["default", "no-default"],
    "logic-mode": ["AND", "OR"],
}


def budget(tier):
    return 1000 if tier == "quick" else 14000


@st.composite
def _value(draw):
    n = draw(st.integers(1, 4))
    parts = [draw(st.sampled_from(WORDS))]
    for _ in range(n - 1):
        sep = draw(st.sampled_from([" ", " ", ", ", " - ", "; ", ". "]))
        w = draw(st.sampled_from(WORDS))
        if draw(st.integers(0, 3)) == 0:
            w = w + draw(st.sampled_from(PUNCT))
        parts.append(sep + w)
    return "".join(parts)


@st.composite
def _case(draw):
    table = draw(progs.tables(min_rows=2, max_rows=8))
    scan = draw(progs.scans(table))
    selective = draw(st.sampled_from([True, True, False]))
    kinds = ("assign", "print", "se", "print", "when") if selective else ("b", "b", "b", "assign", "when", "se", "print", "print")
    prog = draw(progs.programs(table, kinds=kinds, max_comps=4, depth=2, or_mode=False))
    if selective:
        # a selective decider (beside components that rarely decide) so that the matched set is usually a proper subset
        nrec = len(table["records"])
        ids = draw(st.lists(st.sampled_from(list(range(0, nrec + 1))), min_size=1, max_size=4, unique=True))
        decider = ["f", "in", [], [["h", "id"], ["t", "|".join(f"r{i}" for i in ids)]]]
        if draw(st.sampled_from([False, False, True])):
            # a decider that reads the running match count: the count is of matched lines in every return mode
            decider = ["f", "or", [], [decider, ["==", ["f", "count", [], []], ["t", draw(st.sampled_from([1, 2, 3]))]]]]
        prog["comps"].append(decider)
    if draw(st.sampled_from([False, False, True])):
        # print() whose second argument is a function to run after printing
        nrec = len(table["records"])
        second = draw(st.sampled_from([
            ["f", "push", [], [["t", "pp"], ["f", "line_number", [], []]]],
            ["f", "stop", [], [["==", ["f", "line_number", [], []], ["t", draw(st.integers(1, nrec))]]]],
        ]))
        if second[1] != "stop":   # (a stop would end the run early: the complement relation assumes full scans)
            prog["comps"].append(["f", "print", [], [["t", "note"], second]])
    if draw(st.integers(0, 3)) == 1:
        # lines passed over by advance()/skip() are scanned but not matched: they belong to 'no-matches'
        nrec = len(table["records"])
        cond = ["==", ["f", "line_number", [], []], ["t", draw(st.integers(1, nrec))]]
        act = ["f", "advance", [], [["t", draw(st.integers(1, 3))]]] if draw(st.booleans()) else ["f", "skip", [], []]
        prog["comps"].insert(draw(st.integers(0, len(prog["comps"]))), ["->", cond, act])
    if draw(st.integers(0, 4)) == 0:
        # the file ends with a record that is a lone whitespace or empty (quoted) cell: a record, not a blank line
        table["records"].append([draw(st.sampled_from([" ", "", "  "]))])
    nf = draw(st.sampled_from([0, 1, 2, 2, 3, 3, 4]))
    keys = draw(st.lists(st.sampled_from(KEYS), min_size=nf, max_size=nf, unique=True))
    fields = [[k, draw(_value())] for k in keys]
    free = draw(st.sampled_from(["", "This csvpath checks the orders file", "draft, do not ship! (really)", "see ticket #42 / v2", "A 'quoted' remark; and more."]))
    tail = draw(st.sampled_from(["", "", "DRAFT", "end of comment, thanks."]))
    modes = {}
    for k, vals in MODES.items():
        if draw(st.integers(0, 2)) == 0:
            modes[k] = draw(st.sampled_from(vals))
    tight = draw(st.sampled_from([False, False, True]))
    if tight:
        # every free field's value ends with a punctuation character (part of the value)
        fields = [[k, v.rstrip() + draw(st.sampled_from([";", ".", ",", ")", "!"]))] for k, v in fields]
    return {"table": table, "scan": scan, "prog": prog, "fields": fields, "free": free, "tail": tail, "tight": tight,
            "after": draw(st.integers(0, 3)) == 0, "modes": modes,
            "slot": draw(st.integers(0, 4)), "nl": draw(st.booleans())}


def strategy(tier):
    return _case()


def build_comment(case, modes):
    """free text, fields and mode settings interleaved; tail after a stand-alone colon"""
    items = [(f"{k}: {v}", "field") for k, v in case["fields"]]
    slot = min(case["slot"], len(items))
    mitems = [(f"{k}: {v}", "mode") for k, v in modes.items()]
    items = items[:slot] + mitems + items[slot:]
    sep = "\n   " if case["nl"] else " "
    body = ""
    for i, (it, kind) in enumerate(items):
        if i == 0:
            body = it
        elif case.get("tight") and items[i - 1][1] == "field":
            # the previous free field's value ends with punctuation (part of the value) and the
            # next key follows at once, without whitespace
            body += it
        else:
            body += sep + it
    text = case["free"]
    if text and items:
        text += sep
    text += body
    if case["tail"]:
        text += (" : " if items else " ") + case["tail"]
    if not text.strip():
        return ""
    return f"~ {text} ~"


def full_text(case, rel, comment):
    path = common.text_of(case["prog"], rel, case["scan"], comment="")
    if not comment:
        return path
    return (path + "\n" + comment) if case["after"] else (comment + "\n" + path)


def tup(res):
    return {k: res[k] for k in ("lines", "variables", "scan_count", "match_count", "is_valid", "errors", "printouts", "raised")}


def words(s):
    return str(s).split()


def run_case(case, sb):
    records = case["table"]["records"]
    rel = sb.write_csv("f.csv", records)
    labels = []
    problems = []
    base_text = full_text(case, rel, "")
    T0 = real.run_path(base_text, want_stdout=True)
    if T0["raised"]:
        return core.outcome(undefined=True, labels=["base-raised"])
    # (a) metadata-only comment changes nothing and is captured
    c_meta = build_comment(case, {})
    t1 = full_text(case, rel, c_meta)
    T1 = real.run_path(t1)
    if tup(T1) != tup(T0):
        problems.append({"relation": "a: comment without modes changes the run", "csvpath": t1, "with": tup(T1), "without": tup(T0)})
    p1 = T1["_path"]
    for k, v in case["fields"]:
        got = p1.metadata.get(k)
        if got is None or words(got) != words(v):
            problems.append({"relation": "a: metadata field", "csvpath": t1, "key": k, "expected": v, "observed": got})
    if T1["_path"].scan != T0["_path"].scan or T1["_path"].match != T0["_path"].match:
        problems.append({"relation": "a: scan/match parts differ", "with": [p1.scan, p1.match], "without": [T0["_path"].scan, T0["_path"].match]})
    # messy comment with modes == minimal comment with the same modes
    modes = case["modes"]
    if modes:
        labels += [f"{k}:{v}" for k, v in modes.items()]
        tm = full_text(case, rel, build_comment(case, modes))
        tmin = full_text(dict(case, after=False), rel, "~ " + " ".join(f"{k}: {v}" for k, v in modes.items()) + " ~")
        Tm = real.run_path(tm, want_stdout=True)
        Tn = real.run_path(tmin, want_stdout=True)
        a, b = tup(Tm), tup(Tn)
        a["stdout"], b["stdout"] = Tm["stdout"], Tn["stdout"]
        a["unmatched"], b["unmatched"] = Tm["unmatched"], Tn["unmatched"]
        if a != b:
            problems.append({"relation": "modes in a messy comment == same modes alone", "messy": tm, "minimal": tmin, "messy_result": a, "minimal_result": b})
    n = len(records)
    sset = [p for p in scanmodel.denote(case["scan"], n) if records[p]]
    scanned_lines = [records[p] for p in sset]
    # (b) complement
    tb = full_text(case, rel, build_comment(case, {"return-mode": "no-matches"}))
    Tb = real.run_path(tb)
    if Tb["raised"]:
        problems.append({"relation": "b", "csvpath": tb, "raised": Tb["raised"]})
    else:
        pos0 = positions(records, sset, T0["lines"])
        posb = positions(records, sset, Tb["lines"])
        if pos0 is None or posb is None or set(pos0) & set(posb) or sorted(pos0 + posb) != sset:
            problems.append({"relation": "b: no-matches is not the complement of the default", "csvpath": tb,
                             "default": T0["lines"], "no_matches": Tb["lines"], "scanned": scanned_lines})
    # (c) no-run
    tc = full_text(case, rel, build_comment(case, {"run-mode": "no-run"}))
    Tc = real.run_path(tc, want_stdout=True)
    if Tc["raised"] or Tc["lines"] or Tc["variables"] or Tc["printouts"] or Tc["scan_count"] or Tc["match_count"] or Tc["stdout"].strip():
        problems.append({"relation": "c: no-run did something", "csvpath": tc, "result": tup(Tc), "stdout": Tc["stdout"]})
    # (d) print-mode
    if not T0["errors"]:
        td = full_text(case, rel, build_comment(case, {"print-mode": "no-default"}))
        te = full_text(case, rel, build_comment(case, {"print-mode": "default"}))
        Td = real.run_path(td, want_stdout=True)
        Te = real.run_path(te, want_stdout=True)
        # a log printer (library class, a subclass of the standard-out printer) must stay attached
        import logging
        from csvpath.util.printer import LogPrinter
        holder = {}

        def pre(p):
            lg = logging.getLogger("vf.c15.sink")
            lg.propagate = False
            lg.setLevel(logging.CRITICAL)
            holder["lp"] = LogPrinter(lg)
            p.add_printer(holder["lp"])
        Tl = real.run_path(td, want_stdout=True, pre=pre)
        if Tl["stdout"] != "" or holder["lp"].lines_printed != len(T0["printouts"]) or Tl["printouts"] != T0["printouts"]:
            problems.append({"relation": "d: no-default with a LogPrinter attached", "csvpath": td, "stdout": Tl["stdout"],
                             "log_printer_lines": holder["lp"].lines_printed, "expected": len(T0["printouts"])})
        # no printer at all: no-default may remove standard-out printing only, never a side effect
        Tn = real.run_path(td, want_stdout=True, printer=False)
        if Tn["stdout"] != "" or Tn["lines"] != T0["lines"] or Tn["variables"] != T0["variables"] or Tn["scan_count"] != T0["scan_count"]:
            problems.append({"relation": "d: no-default without any other printer changes the run", "csvpath": td,
                             "lines": Tn["lines"], "expected_lines": T0["lines"], "variables": Tn["variables"], "expected_variables": T0["variables"]})
        if Td["stdout"] != "" or Td["printouts"] != T0["printouts"]:
            problems.append({"relation": "d: no-default", "csvpath": td, "stdout": Td["stdout"], "printer": Td["printouts"], "expected_printer": T0["printouts"]})
        if Te["stdout"].split("\n")[:-1] != T0["printouts"] and Te["stdout"] != "".join(x + "\n" for x in T0["printouts"]):
            problems.append({"relation": "d: default", "csvpath": te, "stdout": Te["stdout"], "expected": T0["printouts"]})
        if Te["printouts"] != T0["printouts"]:
            problems.append({"relation": "d: default printer", "csvpath": te, "printer": Te["printouts"], "expected": T0["printouts"]})
    # (e) unmatched keep partitions the records read
    tu = full_text(case, rel, build_comment(case, {"unmatched-mode": "keep"}))
    Tu = real.run_path(tu)
    if Tu["raised"]:
        problems.append({"relation": "e", "csvpath": tu, "raised": Tu["raised"]})
    else:
        # 'the records read' = everything up to the last record the run consumed
        end = Tu["_path"].line_monitor.physical_line_number
        end = -1 if end is None else end
        # every record read, blank ones included (a blank record is never collected, so it is unmatched)
        read = [p for p in range(0, min(end, n - 1) + 1)]
        um = list(Tu["unmatched"] or [])
        pm = positions(records, read, Tu["lines"])
        pu = positions(records, read, um)
        if Tu["lines"] != T0["lines"] or pm is None or pu is None or set(pm) & set(pu) or sorted(pm + pu) != read:
            problems.append({"relation": "e: collected + unmatched do not partition the records read", "csvpath": tu,
                             "collected": Tu["lines"], "unmatched": Tu["unmatched"], "records_read": [records[p] for p in read]})
    # (f) the explicit 'unmatched-mode: no-keep' is the default: nothing is held back
    tk = full_text(case, rel, build_comment(case, {"unmatched-mode": "no-keep"}))
    Tk = real.run_path(tk)
    if Tk["raised"]:
        problems.append({"relation": "f", "csvpath": tk, "raised": Tk["raised"]})
    elif Tk["unmatched"] or Tk["lines"] != T0["lines"]:
        problems.append({"relation": "f: unmatched-mode no-keep", "csvpath": tk, "unmatched": Tk["unmatched"], "lines": Tk["lines"], "expected_lines": T0["lines"]})
    nontrivial = len(case["fields"]) >= 2 and bool(case["free"]) and 0 < len(T0["lines"]) < len(sset)
    if case["after"]:
        labels.append("comment-after-path")
    ok = not problems
    summary = {"csvpath": full_text(case, rel, build_comment(case, modes)), "records": records}
    return core.outcome(ok=ok, nontrivial=nontrivial, labels=labels,
                        detail=None if ok else dict(summary, problems=problems[:5]), summary=summary)


def positions(records, among, lines):
    """map returned lines back to positions (in order, each position once); None if impossible"""
    out = []
    i = 0
    for ln in lines:
        while i < len(among) and records[among[i]] != ln:
            i += 1
        if i >= len(among):
            return None
        out.append(among[i])
        i += 1
    return out

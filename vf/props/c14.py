"""C14 - assignment qualifiers decide the vote and the write per the documented table.

case = {"quals": [...], "ys": [y0,y1,y2] (None = absent), "rest": [b0,b1,b2]}
Run:  $f[*][ push("xs", @x)  @x.<quals> = #2  #1 == "t" ]  over 3 records id,t|f,y.
"""
import itertools

from .. import core, real
from ..model import assign

ID = "C14"
LEVEL = "exploration"
RULE = (
    "cases are (qualifier subset, 3 values of y, 3 'rest of line matches' flags), each a real "
    "run over a 3-record file; non-trivial = a write is blocked or a vote is negative on >=1 "
    "line per the table; distinct = distinct (subset, ys, rest)"
)
ASSUMPTIONS = [
    "oracle is vf/model/assign.py written from docs/assignment.md and the C14 statement",
    "where the docs give two readings (latch together with a blocking notnone/increase/decrease) both votes are admitted and counted as tolerated_cells",
    "x is observed by push('xs', @x) placed first on the line (value left by the previous line) and variables['x'] after the run",
]
ENUM_EXHAUSTIVE = {
    "thorough": "all 256 qualifier subsets x all y sequences of length 3 over {absent,1,2,3}(+true,false without increase/decrease) x all 8 rest patterns",
}

YS_NUM = [None, "1", "2", "3"]
YS_ALL = [None, "1", "2", "3", "true", "false"]


def budget(tier):
    return 0


def _all_cases():
    for r in range(len(assign.QUALS) + 1):
        for qs in itertools.combinations(assign.QUALS, r):
            ys = YS_NUM if ("increase" in qs or "decrease" in qs) else YS_ALL
            for yseq in itertools.product(ys, repeat=3):
                for rest in itertools.product([True, False], repeat=3):
                    yield {"quals": list(qs), "ys": list(yseq), "rest": list(rest)}


def enumerate_cases(tier, seed):
    if tier == "thorough":
        yield from _all_cases()
        return
    # quick: seeded ~8% sample; every qualifier subset keeps >= 20 cases
    per = {}
    for i, c in enumerate(_all_cases()):
        k = tuple(c["quals"])
        h = core.hash32(seed, "c14", i) % 1000
        cnt = per.get(k, 0)
        if h < 70 or cnt < 20:
            per[k] = cnt + 1
            yield c


def expected(case):
    x = None
    steps = []
    tol = 0
    for y, rest in zip(case["ys"], case["rest"]):
        write, votes, tolerated = assign.decide(case["quals"], x, y, rest)
        if write:
            x = y
        returned = {bool(v and rest) for v in votes}
        if tolerated and len(returned) > 1:
            tol += 1
        steps.append({"write": write, "votes": sorted(votes), "x_after": x, "returned": sorted(returned)})
    return steps, tol


def run_case(case, sb):
    records = []
    for i, (y, rest) in enumerate(zip(case["ys"], case["rest"])):
        r = [f"id{i}", "t" if rest else "f"]
        if y is not None:
            r.append(y)
        records.append(r)
    rel = sb.write_csv("f.csv", records)
    q = "".join("." + n for n in case["quals"])
    text = f'${rel}[*][ push("xs", @x) @x{q} = #2 #1 == "t" ]'
    res = real.run_path(text)
    steps, tol = expected(case)
    labels = ["q:" + n for n in case["quals"]] or ["q:none"]
    nontrivial = any((not s["write"]) or (False in s["votes"]) for s in steps)
    summary = {"csvpath": text, "records": records, "expected": steps}
    if res["raised"]:
        return core.outcome(ok=False, nontrivial=nontrivial, labels=labels,
                            detail={"csvpath": text, "records": records, "observed": res["raised"]},
                            summary=summary)
    v = res["variables"]
    xs = v.get("xs", [])
    x_after = list(xs[1:]) + [v.get("x")]
    ids = [(ln[0] if ln else None) for ln in res["lines"]]
    problems = []
    if len(xs) != 3:
        problems.append({"xs": xs})
    else:
        if xs[0] is not None:
            problems.append({"x before first line": xs[0]})
        for i, s in enumerate(steps):
            if x_after[i] != s["x_after"]:
                problems.append({"line": i, "x_after_expected": s["x_after"], "x_after_observed": x_after[i]})
            got = f"id{i}" in ids
            if got not in s["returned"]:
                problems.append({"line": i, "returned_expected_one_of": s["returned"], "returned_observed": got})
    if len(ids) != len(set(ids)):
        problems.append({"duplicate lines": ids})
    ok = not problems
    return core.outcome(
        ok=ok, nontrivial=nontrivial, labels=labels, tolerated=tol,
        detail=None if ok else {"csvpath": text, "records": records, "expected": steps,
                                "observed": {"xs": xs, "x": v.get("x"), "returned_ids": ids},
                                "problems": problems},
        summary=summary,
    )

"""C14 - assignment qualifiers decide the vote and the write per the documented table.

case = {"quals": [...], "ys": [y0,y1,y2] (None = absent), "rest": [b0,b1,b2]}
Run:  $f[*][ push("xs", @x)  @x.<quals> = #2  #1 == "t" ]  over 3 records id,t|f,y.
"""
import itertools

from .. import core, real
from ..model import assign

ID = "C14"
LEVEL = "exploration"
RULE = (
    "cases are (qualifier subset, 3 values of y, 3 'rest of line matches' flags), each a real "
    "run over a 3-record file; non-trivial = a write is blocked or a vote is negative on >=1 "
    "line per the table; distinct = distinct (subset, ys, rest)"
)
ASSUMPTIONS = [
    "oracle is vf/model/assign.py written from docs/assignment.md and the C14 statement",
    "where the docs give two readings (latch together with a blocking notnone/increase/decrease) both votes are admitted and counted as tolerated_cells",
    "x is observed by push('xs', @x) placed first on the line (value left by the previous line) and variables['x'] after the run; in the empty-cell family by variables['x'] of runs over the first 1, 2, 3 records",
    "docs/assignment.md does not say whether an empty cell counts as None: a step where exactly one of x, y is blank admits both votes and both write outcomes (tolerated_cells) and the model continues from the observed x; blank -> blank is 'no change' under either reading and is checked strictly",
]
ENUM_EXHAUSTIVE = {
    "thorough": "all 256 qualifier subsets x all y sequences of length 3 over {absent,1,2,3}(+true,false without increase/decrease) x all 8 rest patterns; "
                "the 256 subsets x {absent,1,2}^3 x 8 rest patterns again on a tracking variable (tracking name first with reversed qualifier order / last); "
                "the 16 subsets of onmatch/latch/onchange/nocontrib x sequences over {absent, empty cell, 1, 2} containing an empty cell x 8 rest patterns; "
                "the 256 subsets x sequences over {absent, 0, 1, 2} containing 0 x 8 rest patterns; "
                "the 256 subsets x {absent,1,2}^3 x 8 rest patterns with the rest of the line written as a bare variable test",
}

YS_NUM = [None, "1", "2", "3"]
YS_ALL = [None, "1", "2", "3", "true", "false"]


def budget(tier):
    return 0


def _all_cases():
    for r in range(len(assign.QUALS) + 1):
        for qs in itertools.combinations(assign.QUALS, r):
            ys = YS_NUM if ("increase" in qs or "decrease" in qs) else YS_ALL
            for yseq in itertools.product(ys, repeat=3):
                for rest in itertools.product([True, False], repeat=3):
                    yield {"quals": list(qs), "ys": list(yseq), "rest": list(rest)}


def _tracked_cases():
    """the same table when x is a tracking variable (@x.<quals with the tracking name k among them>) and
    when the qualifiers are written in another order: the tracking name first or last, qualifiers reversed"""
    for r in range(len(assign.QUALS) + 1):
        for qs in itertools.combinations(assign.QUALS, r):
            for yseq in itertools.product([None, "1", "2"], repeat=3):
                for rest in itertools.product([True, False], repeat=3):
                    for track in ("first", "last"):
                        yield {"quals": list(qs), "ys": list(yseq), "rest": list(rest),
                               "form": {"track": track, "order": "rev" if track == "first" else "fwd"}}


def _zero_cases():
    """y may also be the text 0 (truthy for asbool: "similar to Python's bool(x)"; a number for increase/decrease)"""
    for r in range(len(assign.QUALS) + 1):
        for qs in itertools.combinations(assign.QUALS, r):
            for yseq in itertools.product([None, "0", "1", "2"], repeat=3):
                if "0" not in yseq:
                    continue
                for rest in itertools.product([True, False], repeat=3):
                    yield {"quals": list(qs), "ys": list(yseq), "rest": list(rest)}


def _varrest_cases():
    """the rest of the line is a bare variable test written after the assignment ('@r.asbool', r set from
    column 1 earlier on the line) instead of an equality"""
    for r in range(len(assign.QUALS) + 1):
        for qs in itertools.combinations(assign.QUALS, r):
            for yseq in itertools.product([None, "1", "2"], repeat=3):
                for rest in itertools.product([True, False], repeat=3):
                    yield {"quals": list(qs), "ys": list(yseq), "rest": list(rest), "rest_form": "var"}


BLANK_QUALS = ["onmatch", "latch", "onchange", "nocontrib"]


def _blank_cases():
    """y may also be an empty cell (""), for the qualifiers whose documented rule does not depend on
    whether a blank counts as None"""
    for r in range(len(BLANK_QUALS) + 1):
        for qs in itertools.combinations(BLANK_QUALS, r):
            for yseq in itertools.product([None, "", "1", "2"], repeat=3):
                if "" not in yseq:
                    continue
                for rest in itertools.product([True, False], repeat=3):
                    yield {"quals": list(qs), "ys": list(yseq), "rest": list(rest)}


def enumerate_cases(tier, seed):
    if tier == "thorough":
        yield from _all_cases()
        yield from _tracked_cases()
        yield from _blank_cases()
        yield from _zero_cases()
        yield from _varrest_cases()
        return
    for j, fam in enumerate((_tracked_cases, _blank_cases, _zero_cases, _varrest_cases)):
        for i, c in enumerate(fam()):
            if core.hash32(seed, "c14x", j, i) % 1000 < 35:
                yield c
    # quick: seeded ~5% sample; every qualifier subset keeps >= 20 cases
    per = {}
    for i, c in enumerate(_all_cases()):
        k = tuple(c["quals"])
        h = core.hash32(seed, "c14", i) % 1000
        cnt = per.get(k, 0)
        if h < 50 or cnt < 20:
            per[k] = cnt + 1
            yield c


def _same(a, b):
    return (a in (None, "")) and (b in (None, "")) or a == b


def expected(case, observed_after=None):
    """steps of the table.  A step with exactly one of x, y blank ("") is docs-silent (is a blank None?):
    both votes and both outcomes of the write are admitted there and the model continues from the
    observed value of x."""
    x = None
    steps = []
    tol = 0
    for i, (y, rest) in enumerate(zip(case["ys"], case["rest"])):
        if (x == "") != (y == "") and not (x is None and y is None):
            q = set(case["quals"])
            votes = {True} if "nocontrib" in q else ({False} if ("onmatch" in q and not rest) else {True, False})
            after = [x] if ("onmatch" in q and not rest) else [x, y]
            obs = observed_after[i] if observed_after is not None and i < len(observed_after) else None
            steps.append({"write": None, "votes": sorted(votes), "x_after_one_of": after,
                          "returned": sorted({bool(v and rest) for v in votes}), "docs_silent": True})
            tol += 1
            x = obs if any(_same(obs, a) for a in after) else after[-1]
            continue
        write, votes, tolerated = assign.decide(case["quals"], x, y, rest)
        if write:
            x = y
        returned = {bool(v and rest) for v in votes}
        if tolerated and len(returned) > 1:
            tol += 1
        steps.append({"write": write, "votes": sorted(votes), "x_after": x, "returned": sorted(returned)})
    return steps, tol


def qual_text(case):
    form = case.get("form") or {}
    names = list(case["quals"])
    if form.get("order") == "rev":
        names.reverse()
    if form.get("track") == "first":
        names.insert(0, "k")
    elif form.get("track") == "last":
        names.append("k")
    return "".join("." + n for n in names)


def run_case(case, sb):
    records = []
    for i, (y, rest) in enumerate(zip(case["ys"], case["rest"])):
        r = [f"id{i}", "t" if rest else "f"]
        if y is not None:
            r.append(y)
        records.append(r)
    rel = sb.write_csv("f.csv", records)
    tracked = bool((case.get("form") or {}).get("track"))
    read = "@x.k" if tracked else "@x"
    if case.get("rest_form") == "var":
        text = f'${rel}[*][ push("xs", {read}) @r = equals(#1, "t") @x{qual_text(case)} = #2 @r.asbool ]'
    else:
        text = f'${rel}[*][ push("xs", {read}) @x{qual_text(case)} = #2 #1 == "t" ]'
    res = real.run_path(text)
    labels = ["q:" + n for n in case["quals"]] or ["q:none"]
    if tracked:
        labels.append("form:tracking-name-" + case["form"]["track"])
    if "" in case["ys"]:
        labels.append("y:empty-cell")
    if case.get("rest_form") == "var":
        labels.append("rest:bare-variable-test")
    if res["raised"]:
        steps, tol = expected(case)
        nontrivial = any((not s["write"]) or (False in s["votes"]) for s in steps)
        return core.outcome(ok=False, nontrivial=nontrivial, labels=labels,
                            detail={"csvpath": text, "records": records, "observed": res["raised"]},
                            summary={"csvpath": text, "records": records, "expected": steps})
    v = res["variables"]
    xs = v.get("xs", [])
    xfin = v.get("x")
    if tracked:
        xfin = xfin.get("k") if isinstance(xfin, dict) else (None if xfin is None else {"not a tracking variable": xfin})
    x_after = list(xs[1:]) + [xfin]
    if "" in case["ys"] and not tracked:
        # @x read inside the csvpath may itself treat a blank specially: the value of x after line i is
        # taken from the variables of a run over the first i+1 records instead
        x_after = []
        for i in range(len(records)):
            reli = sb.write_csv(f"f{i}.csv", records[: i + 1])
            ri = real.run_path(text.replace(rel, reli))
            x_after.append(None if ri["raised"] else ri["variables"].get("x"))
    steps, tol = expected(case, x_after)
    nontrivial = any((not s["write"]) or (False in s["votes"]) for s in steps)
    summary = {"csvpath": text, "records": records, "expected": steps}
    ids = [(ln[0] if ln else None) for ln in res["lines"]]
    problems = []
    if len(xs) != 3:
        problems.append({"xs": xs})
    else:
        if xs[0] is not None:
            problems.append({"x before first line": xs[0]})
        for i, s in enumerate(steps):
            if "x_after_one_of" in s:
                if not any(_same(x_after[i], a) for a in s["x_after_one_of"]):
                    problems.append({"line": i, "x_after_expected_one_of": s["x_after_one_of"], "x_after_observed": x_after[i]})
            elif x_after[i] != s["x_after"] and not ("" in case["ys"] and _same(x_after[i], s["x_after"])):
                problems.append({"line": i, "x_after_expected": s["x_after"], "x_after_observed": x_after[i]})
            got = f"id{i}" in ids
            if got not in s["returned"]:
                problems.append({"line": i, "returned_expected_one_of": s["returned"], "returned_observed": got})
    if len(ids) != len(set(ids)):
        problems.append({"duplicate lines": ids})
    ok = not problems
    return core.outcome(
        ok=ok, nontrivial=nontrivial, labels=labels, tolerated=tol,
        detail=None if ok else {"csvpath": text, "records": records, "expected": steps,
                                "observed": {"xs": xs, "x": v.get("x"), "returned_ids": ids},
                                "problems": problems},
        summary=summary,
    )

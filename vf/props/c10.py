"""C10 - every run gets its own run directory and never touches an earlier run's results.

case = {"runs": [[group, "new"|"reuse", instant index, method]...]}
The clock is owned by the harness: csvpath.csvpaths.datetime (and managers.metadata.datetime) are
replaced by a datetime subclass whose now() returns the scripted UTC instant (year 2031).
"""
import contextlib
import csv
import datetime as _dt
import hashlib
import io
import itertools
import os
import warnings

from hypothesis import strategies as st

from .. import core, real

ID = "C10"
LEVEL = "exploration"
RULE = (
    "cases are histories of named-paths runs over {2 groups} x {new instance, reused instance} x "
    "non-decreasing scripted instants from {10:00:00, 10:00:01, 12:59:59, 13:00:00, 23:59:59, next day "
    "00:00:00, 00:00:01} (same-second repeats allowed), first step canonical: exhaustive to length 3 "
    "(quick) / 5 (thorough) with collect_paths, plus Hypothesis-drawn histories of length 5-8 over all six "
    "run methods; invariants after every run; non-trivial = a reuse step after a run of the other group, "
    "or consecutive runs that cross 13:00 or midnight; distinct = distinct history"
)
ASSUMPTIONS = [
    "the wall clock is scripted through module attributes; a run directory not dated 2031 means the fake clock was bypassed -> harness error (exit 2)",
    "ties inside one second accept any tied run for :last/:first",
    "each run reads its own named file whose single data row carries the run number, so data.csv identifies the run",
    "references are resolved after every run by the instance that ran and by the (up to three) oldest instances of the history, which stay alive",
]
ENUM_EXHAUSTIVE = {
    "quick": "all canonical histories of length <= 3 (collect_paths)",
    "thorough": "all canonical histories of length <= 5 (collect_paths): 133,175 histories",
}
GROUPS = ["g1", "g2"]
BASE = _dt.datetime(2031, 3, 5, 0, 0, 0, tzinfo=_dt.timezone.utc)
INSTANTS = [
    BASE.replace(hour=10, minute=0, second=0),
    BASE.replace(hour=10, minute=0, second=1),
    BASE.replace(hour=12, minute=59, second=59),
    BASE.replace(hour=13, minute=0, second=0),
    BASE.replace(hour=23, minute=59, second=59),
    BASE + _dt.timedelta(days=1),
    BASE + _dt.timedelta(days=1, seconds=1),
]
WALL_BUDGET_S = {"quick": 200, "thorough": 6000}


def budget(tier):
    return 160 if tier == "quick" else 3000


def enumerate_cases(tier, seed):
    maxlen = 3 if tier == "quick" else 5
    for ln in range(1, maxlen + 1):
        for times in itertools.combinations_with_replacement(range(len(INSTANTS)), ln):
            for groups in itertools.product(GROUPS, repeat=ln):
                if groups[0] != "g1":
                    continue
                for modes in itertools.product(["new", "reuse"], repeat=ln):
                    if modes[0] != "new":
                        continue
                    yield {"runs": [[g, m, t, "collect_paths"] for g, m, t in zip(groups, modes, times)]}


@st.composite
def _case(draw):
    ln = draw(st.integers(5, 8))
    times = sorted(draw(st.lists(st.integers(0, len(INSTANTS) - 1), min_size=ln, max_size=ln)))
    runs = []
    for i in range(ln):
        runs.append([draw(st.sampled_from(GROUPS)), "new" if i == 0 else draw(st.sampled_from(["new", "reuse", "reuse"])),
                     times[i], draw(st.sampled_from(list(real.METHODS))),
                     # how the run names its group: 'g1' or the one-member form 'g1#m' (still the group g1)
                     draw(st.sampled_from(["plain", "plain", "ident"]))])
    return {"runs": runs}


def strategy(tier):
    return _case()


class FakeDateTime(_dt.datetime):
    _now = None

    @classmethod
    def now(cls, tz=None):
        n = cls._now
        return cls(n.year, n.month, n.day, n.hour, n.minute, n.second, 0, tzinfo=n.tzinfo)


@contextlib.contextmanager
def scripted_clock():
    import csvpath.csvpaths as m1
    import csvpath.managers.metadata as m2
    old1, old2 = m1.datetime, m2.datetime
    m1.datetime = FakeDateTime
    m2.datetime = FakeDateTime
    try:
        yield
    finally:
        m1.datetime, m2.datetime = old1, old2


def tree_hashes(root):
    out = {}
    for d, _, files in os.walk(root):
        for fn in files:
            p = os.path.join(d, fn)
            with open(p, "rb") as f:
                out[os.path.relpath(p, root)] = hashlib.sha256(f.read()).hexdigest()
    return out


def run_dirs(sb):
    out = {}
    base = os.path.join(sb.root, "archive")
    for g in GROUPS:
        gd = os.path.join(base, g)
        out[g] = sorted(os.listdir(gd)) if os.path.isdir(gd) else []
        out[g] = [d for d in out[g] if os.path.isdir(os.path.join(gd, d))]
    return out


def run_case(case, sb):
    runs = case["runs"]
    problems = []
    labels = [f"len:{len(runs)}"]
    nontrivial = False
    history = []     # {"k", "group", "t", "dir"}
    buf = io.StringIO()
    with warnings.catch_warnings(), contextlib.redirect_stdout(buf), scripted_clock():
        FakeDateTime._now = INSTANTS[0]
        setup = real.new_csvpaths()
        for g in GROUPS:
            setup.paths_manager.add_named_paths(name=g, paths=["~ id: m ~ $[*][ yes() ]"])
        cps = None
        prev = None
        instances = []   # every instance of the history stays alive and keeps resolving references
        for k, run in enumerate(runs):
            g, mode, ti, method = run[:4]
            form = run[4] if len(run) > 4 else "plain"
            FakeDateTime._now = INSTANTS[ti]
            if mode == "new" or cps is None:
                cps = real.new_csvpaths()
                instances.append(cps)
            rel = sb.write_csv(f"in{k}.csv", [["run", "n"], ["run", str(k)]])
            cps.file_manager.add_named_file(name=f"f{k}", path=os.path.join(sb.root, rel))
            if prev is not None:
                if mode == "reuse" and prev[0] != g:
                    nontrivial = True
                    labels.append("reuse-after-other-group")
                if (prev[2], ti) in ((2, 3), (4, 5)) or (prev[2] <= 2 < 3 <= ti) or (prev[2] <= 4 < 5 <= ti):
                    nontrivial = True
                    labels.append("crosses-13h-or-midnight")
            before_dirs = run_dirs(sb)
            before_hashes = {(h["group"], h["dir"]): tree_hashes(os.path.join(sb.root, "archive", h["group"], h["dir"])) for h in history}
            out = real.run_group(cps, g if form == "plain" else g + "#m", f"f{k}", method)
            if form != "plain":
                labels.append("pathsname:group#identity")
            if out["raised"]:
                problems.append({"run": k, "raised": out["raised"]})
                break
            after_dirs = run_dirs(sb)
            new = {gg: [d for d in after_dirs[gg] if d not in before_dirs[gg]] for gg in GROUPS}
            flat = [(gg, d) for gg in GROUPS for d in new[gg]]
            for gg, d in flat:
                if not d.startswith("2031-") and not d.startswith("2031"):
                    raise RuntimeError(f"fake clock bypassed: run directory {d}")
            # (1) exactly one new directory, under this run's group
            if len(flat) != 1 or flat[0][0] != g:
                problems.append({"run": k, "new_directories_expected": f"exactly one under archive/{g}", "observed": flat})
                break
            newdir = flat[0][1]
            res = out["_results"]
            rdirs = set(os.path.basename(os.path.normpath(r.run_dir)) for r in res)
            if rdirs != {newdir}:
                problems.append({"run": k, "results_run_dir": sorted(rdirs), "new_directory": newdir})
                break
            # (2) earlier runs untouched
            for h in history:
                now = tree_hashes(os.path.join(sb.root, "archive", h["group"], h["dir"]))
                if now != before_hashes[(h["group"], h["dir"])]:
                    changed = sorted(set(now.items()) ^ set(before_hashes[(h["group"], h["dir"])].items()))[:4]
                    problems.append({"run": k, "earlier_run_modified": [h["group"], h["dir"]], "files": changed})
                    break
            if problems:
                break
            history.append({"k": k, "group": g, "t": ti, "dir": newdir, "method": method})
            prev = (g, mode, ti)
            # (3) :last / :first resolution (collecting serial runs have data.csv)
            for gg in GROUPS:
                mine = [h for h in history if h["group"] == gg]
                for prefix in ("", "2031-", "2031-03-05", "2031-03-06"):
                    cand = [h for h in mine if h["dir"].startswith(prefix) and has_data(sb, h)]
                    allc = [h for h in mine if h["dir"].startswith(prefix)]
                    if not allc or len(cand) != len(allc):
                        continue
                    resolvers = [("current", cps)] + [(f"instance#{i}", c) for i, c in enumerate(instances[:3]) if c is not cps]
                    for (who, inst), which in itertools.product(resolvers, ("last", "first")):
                        ref = f"${gg}.results.{prefix}:{which}.m"
                        got = core.call_real(inst.file_manager.get_named_file, ref)
                        tbest = max(h["t"] for h in cand) if which == "last" else min(h["t"] for h in cand)
                        ok_ks = sorted(h["k"] for h in cand if h["t"] == tbest)
                        gk = data_run_number(got) if isinstance(got, str) else None
                        if gk not in ok_ks:
                            problems.append({"run": k, "reference": ref, "resolved_by": who, "expected_run_one_of": ok_ks,
                                             "observed_run": gk, "observed": repr(got)[:200],
                                             "directories": [(h["k"], h["dir"]) for h in mine]})
                            break
                    if problems:
                        break
                if problems:
                    break
            if problems:
                break
    ok = not problems
    summary = {"runs": runs, "directories": [(h["group"], h["dir"]) for h in history]}
    return core.outcome(ok=ok, nontrivial=nontrivial, labels=sorted(set(labels)),
                        detail=None if ok else dict(summary, problems=problems), summary=summary)


def has_data(sb, h):
    return os.path.isfile(os.path.join(sb.root, "archive", h["group"], h["dir"], "m", "data.csv")) and h["method"] in ("collect_paths", "collect_by_line")


def data_run_number(path):
    try:
        with open(path, newline="") as f:
            rows = list(csv.reader(f))
        return int(rows[-1][1])
    except Exception:  # noqa: BLE001
        return None

"""C18 - a run that aborts still leaves a truthful, readable record.

case = {"table" (with column e holding the poison value at one data line), "members": [...], "abort": [member index, cause],
        "how": "comment"|"policy", "method", "next_method"}
The aborting member carries an error-provoking component; the exception is raised through
'validation-mode: raise' on that member or an error policy with 'raise'.
"""
import hashlib
import json
import os

from hypothesis import strategies as st

from .. import core, real
from ..gen import progs
from . import c08, c09, c10, common

ID = "C18"
LEVEL = "fault_enumeration"
RULE = (
    "cases are groups of 1-4 generated csvpaths over tables of <=8 data lines with an abort point "
    "(member index, line number) induced by an argument error or a Python exception inside a function, raised "
    "through validation-mode: raise on that member or a policy with raise, for each of the six run methods, "
    "followed by one further ordinary run on the same instance; quick draws the abort point, thorough "
    "enumerates every (member, line) point of each generated group; non-trivial = abort at member index >=1 "
    "or at a line after >=1 line was already returned; distinct = case hash"
)
ASSUMPTIONS = [
    "abort causes are reachable deterministically from csvpath programs (no process kill between two file writes)",
    "members that finished before the aborting member are compared with their standalone runs",
]
CAUSES = {
    "args": (["=", "zz", [], None, ["f", "add", [], [["h", "e"], ["t", 1]]]], "5", "x"),
    "pyexc": (["=", "zz", [], None, ["f", "mod", [], [["t", 7], ["h", "e"]]]], "3", "0"),
}


def budget(tier):
    return 480 if tier == "quick" else 2400


def setup_worker(sb):
    """third abort cause: an external function registered through the public
    FunctionFactory.add_function that raises at line k"""
    from csvpath.matching.functions.function_factory import FunctionFactory
    from csvpath.matching.functions.function_focus import ValueProducer
    from csvpath.matching.functions.args import Args
    from csvpath.matching.productions import Term

    if "vfboom" in FunctionFactory.NOT_MY_FUNCTION:
        return

    class VfBoom(ValueProducer):
        def check_valid(self):
            self.args = Args(matchable=self)
            self.args.argset(1).arg(types=[Term], actuals=[int])
            self.args.validate(self.siblings())
            super().check_valid()

        def _produce_value(self, skip=None):
            self.value = self.matches(skip=skip)

        def _decide_match(self, skip=None):
            k = int(self._value_one(skip=skip))
            if self.matcher.csvpath.line_monitor.physical_line_number == k:
                raise RuntimeError(f"vfboom at line {k}")
            self.match = self.default_match()

    FunctionFactory.add_function("vfboom", VfBoom(None, "vfboom"))


@st.composite
def _case(draw):
    table = draw(progs.tables(min_rows=2, max_rows=8, ragged=False, extra=False))
    n = draw(st.integers(1, 4))
    members = []
    for i in range(n):
        prog = draw(progs.programs(table, kinds=("b", "assign", "when", "se", "print"), max_comps=3, depth=1, or_mode=False))
        members.append({"prog": prog, "scan": "1*", "id": f"m{i}" if draw(st.integers(0, 3)) else None})
    datapos = [i for i, r in enumerate(table["records"]) if r][1:]
    if table["records"][0] and draw(st.integers(0, 4)) == 2:
        datapos = [0]   # the header row itself (physical line 0) is scanned and aborts
    cause = draw(st.sampled_from(sorted(CAUSES) + ["extfn", "shortrow"]))
    how = draw(st.sampled_from(["comment", "policy"]))
    method = draw(st.sampled_from(list(real.METHODS)))
    if cause == "shortrow":
        # raised from limit_collection(), outside the match expressions: needs a policy with raise,
        # a serial method and a data line (constructed, not rejected)
        how = "policy"
        method = draw(st.sampled_from(list(real.SERIAL)))
        datapos = [i for i, r in enumerate(table["records"]) if r][1:]
    return {"table": table, "members": members,
            "abort_member": draw(st.integers(0, n - 1)),
            "abort_line": draw(st.sampled_from(datapos)),
            "cause": cause,
            "how": how,
            "method": method,
            "next_method": draw(st.sampled_from(list(real.METHODS))),
            "all_points": False,
            "policies": draw(st.sampled_from([["raise", "collect"], ["raise", "collect"], ["collect"]])),
            "stop_after": draw(st.sampled_from([False, False, True])),
            "skip_all": draw(st.sampled_from([None, None, [draw(st.integers(0, 3)), draw(st.integers(0, 7))]]))}


def strategy(tier):
    if tier == "thorough":
        return _case().map(lambda c: dict(c, all_points=True))
    return _case()


def poison(table, cause, line):
    import copy
    t = copy.deepcopy(table)
    if cause == "extfn":
        return t
    if cause == "shortrow":
        # the row at the abort line loses its last cell; collect(<last header>) then raises from
        # limit_collection(), i.e. outside the match expressions
        if len(t["records"][line]) > 1:
            t["records"][line] = t["records"][line][:-1]
        return t
    comp, good, bad = CAUSES[cause]
    # appended as the LAST column so that index-based header references of the generated
    # programs keep pointing at the same cells (tables here are not ragged)
    t["cols"].append({"name": "e", "type": "err", "dense": True})
    first = True
    for i, r in enumerate(t["records"]):
        if not r:
            continue
        if first:
            r.append("e")
            first = False
        else:
            r.append(bad if i == line else good)
    return t


def member_text(m, filename, poison_comp=None, raise_comment=False, stop_after=None):
    prog = {"comps": list(m["prog"]["comps"]), "mode": "AND"}
    if poison_comp is not None and stop_after is not None:
        # the failing component comes first; a later component stops the run on the very same line
        prog["comps"] = [poison_comp, ["f", "stop", [], [["==", ["f", "line_number", [], []], ["t", stop_after]]]]] + prog["comps"]
    elif poison_comp is not None:
        prog["comps"] = prog["comps"] + [poison_comp]
    fields = []
    if m["id"] is not None:
        fields.append(f"id: {m['id']}")
    if raise_comment:
        fields.append("validation-mode: raise")
    meta = ("~ " + " ".join(fields) + " ~ ") if fields else ""
    return common.text_of(prog, filename, m["scan"], comment=meta)


def inputs_hash(sb):
    return c10.tree_hashes(os.path.join(sb.root, "inputs"))


excluded_points = []


def one_point(case, sb, am, line):
    cause = case["cause"]
    table = poison(case["table"], cause, line)
    records = table["records"]
    if cause == "shortrow":
        if line == 0 or case["how"] != "policy" or case["method"] not in real.SERIAL or len(case["table"]["cols"]) < 2:
            return None, None   # needs a data line, a policy with raise and a serial method
        comp = ["f", "collect", [], [["t", case["table"]["cols"][-1]["name"]]]]
    else:
        comp = ["f", "vfboom", [], [["t", line]]] if cause == "extfn" else CAUSES[cause][0]
    members = case["members"]
    method = case["method"]
    problems = []
    policy = ["raise", "collect"] if case["how"] == "policy" else ["collect", "print"]
    # the CsvPaths-level policy may lack 'raise': the member's own 'raise' must still abort the run
    sb.write_config(policy, case.get("policies") or ["raise", "collect"])
    rel = sb.write_csv("f.csv", records)
    if line == 0:
        # scan from line 0: the header row offends (its 'e' cell is the text 'e'; vfboom(0) fires there)
        members = [dict(m, scan=("*" if i == am else m["scan"])) for i, m in enumerate(members)]
    if cause == "shortrow":
        # the aborting member must return the short row for limit_collection() to see it
        members = [dict(m, prog={"comps": [["f", "yes", [], []]], "mode": "AND"}) if i == am else m for i, m in enumerate(members)]
    sk = case.get("skip_all")
    if sk and method in real.BYLINE and am >= 1:
        # breadth-first only: an earlier member signals skip_all() on an earlier data line; the later abort must
        # still be recorded at its own line number
        earlier = [p for p, r in enumerate(records) if r and 0 < p < line]
        if earlier:
            j, s_ = sk[0] % am, earlier[sk[1] % len(earlier)]
            members = [dict(m, prog=dict(m["prog"], comps=list(m["prog"]["comps"]) + [["->", ["==", ["f", "line_number", [], []], ["t", s_]], ["f", "skip_all", [], []]]]))
                       if i == j else m for i, m in enumerate(members)]
    texts = [member_text(m, "", comp if i == am else None, raise_comment=(i == am and case["how"] == "comment"),
                         stop_after=(line if (i == am and case.get("stop_after") and cause != "shortrow") else None)) for i, m in enumerate(members)]
    # standalone references for the members that do not abort (policy without raise for them is irrelevant: they have no error)
    alone = []
    for i, m in enumerate(members):
        a = real.run_path(member_text(m, rel))
        if a["raised"] or a["errors"]:
            return None, None   # a member errors by itself (without the poison): abort point not unique -> skip
        alone.append(None if i == am else a)
    c08.sb_reset_archive(sb)
    cps = real.new_csvpaths()
    real.setup_group(sb, cps, "g", texts, "f", records)
    before_inputs = inputs_hash(sb)
    out = real.run_group(cps, "g", "f", method)
    serial = method in real.SERIAL
    if not out["raised"]:
        problems.append({"abort": [am, line], "exception_did_not_reach_caller": True, "method": method, "csvpaths": texts})
        return problems, False
    gdir = os.path.join(sb.root, "archive", "g")
    runs = sorted(d for d in os.listdir(gdir) if os.path.isdir(os.path.join(gdir, d))) if os.path.isdir(gdir) else []
    if len(runs) != 1:
        problems.append({"abort": [am, line], "run_directories": runs})
        return problems, False
    rdir = os.path.join(gdir, runs[0])
    started = range(0, am + 1) if serial else range(len(members))
    for i in started:
        m = members[i]
        name = m["id"] if m["id"] is not None else str(i)
        mdir = os.path.join(rdir, name)
        files = {}
        for fn in ("meta.json", "vars.json", "errors.json"):
            try:
                with open(os.path.join(mdir, fn)) as f:
                    files[fn] = json.load(f)
            except Exception as e:  # noqa: BLE001
                problems.append({"abort": [am, line], "member": name, "file": fn, "unreadable": repr(e), "method": method})
        try:
            with open(os.path.join(mdir, "manifest.json")) as f:
                man = json.load(f)
        except Exception as e:  # noqa: BLE001
            man = None
            problems.append({"abort": [am, line], "member": name, "file": "manifest.json", "unreadable": repr(e), "method": method})
        if i == am:
            errs = files.get("errors.json")
            if errs is not None:
                lines = [e.get("line_count") for e in errs]
                if line not in lines:
                    problems.append({"abort": [am, line], "member": name, "errors.json_lines": lines, "expected_line": line, "method": method})
            lastline = max(i for i, r in enumerate(records) if r)
            if line == lastline and core.finding_active("KF-C18-completed-last-line"):
                excluded_points.append((am, line))
            elif man is not None and man.get("completed") is not False:
                problems.append({"abort": [am, line], "member": name, "manifest.completed": man.get("completed"), "method": method})
        elif serial and i < am:
            a = alone[i]
            if "vars.json" in files:
                try:
                    av = json.loads(json.dumps(a["_path"].variables))
                except (TypeError, ValueError):
                    av = None
                if av is not None and files["vars.json"] != av:
                    problems.append({"abort": [am, line], "member": name, "vars.json": files["vars.json"], "standalone": av})
            if method == "collect_paths":
                dp = os.path.join(mdir, "data.csv")
                got = c09.read_csv(dp) if os.path.isfile(dp) else []
                if got != a["lines"]:
                    problems.append({"abort": [am, line], "member": name, "data.csv": got, "standalone_lines": a["lines"]})
            if man is not None and (man.get("valid") != a["is_valid"] or man.get("completed") is not True):
                problems.append({"abort": [am, line], "member": name, "finished_member_manifest": {"valid": man.get("valid"), "completed": man.get("completed")}, "standalone_valid": a["is_valid"]})
    try:
        with open(os.path.join(rdir, "manifest.json")) as f:
            rman = json.load(f)
        if rman.get("status") == "complete":
            problems.append({"abort": [am, line], "run_manifest_status": "complete", "method": method})
    except Exception as e:  # noqa: BLE001
        problems.append({"abort": [am, line], "run_manifest": repr(e)})
    if inputs_hash(sb) != before_inputs:
        problems.append({"abort": [am, line], "inputs_changed": True})
    # one further ordinary run on the same instance
    clean = [member_text(m, "") for m in members]
    import contextlib, io, warnings
    with warnings.catch_warnings(), contextlib.redirect_stdout(io.StringIO()):
        cps.paths_manager.add_named_paths(name="h", paths=clean)
    sb.write_config(["collect", "print"], ["raise", "collect"])
    out2 = real.run_group(cps, "h", "f", case["next_method"])
    if out2["raised"]:
        problems.append({"abort": [am, line], "next_run_raised": out2["raised"], "next_method": case["next_method"]})
    else:
        hdir = os.path.join(sb.root, "archive", "h")
        hr = sorted(d for d in os.listdir(hdir) if os.path.isdir(os.path.join(hdir, d))) if os.path.isdir(hdir) else []
        if len(hr) != 1:
            problems.append({"abort": [am, line], "next_run_directories": hr, "aborted_run_directory": runs[0]})
        else:
            try:
                with open(os.path.join(hdir, hr[0], "manifest.json")) as f:
                    if json.load(f).get("status") != "complete":
                        problems.append({"abort": [am, line], "next_run_status_not_complete": True})
            except Exception as e:  # noqa: BLE001
                problems.append({"abort": [am, line], "next_run_manifest": repr(e)})
        try:
            with open(os.path.join(rdir, "manifest.json")) as f:
                if json.load(f).get("status") == "complete":
                    problems.append({"abort": [am, line], "aborted_run_claims_complete_after_next_run": True})
        except Exception as e:  # noqa: BLE001
            problems.append({"abort": [am, line], "run_manifest_after": repr(e)})
        now = sorted(d for d in os.listdir(gdir) if os.path.isdir(os.path.join(gdir, d)))
        if now != runs:
            problems.append({"abort": [am, line], "aborted_group_directories_changed": now})
    nontrivial = am >= 1 or any(r for r in records[1:line] if r)
    return problems, nontrivial


def run_case(case, sb):
    labels = ["method:" + case["method"], "cause:" + case["cause"], "how:" + case["how"]]
    points = []
    if case.get("all_points"):
        datapos = [i for i, r in enumerate(case["table"]["records"]) if r][1:]
        if case["table"]["records"][0]:
            datapos = [0] + datapos
        for am in range(len(case["members"])):
            for ln in datapos:
                points.append((am, ln))
    else:
        points.append((case["abort_member"], case["abort_line"]))
    problems = []
    nontrivial = False
    done = 0
    del excluded_points[:]
    for am, ln in points:
        pr, nt = one_point(case, sb, am, ln)
        if pr is None:
            continue
        done += 1
        nontrivial = nontrivial or bool(nt)
        if pr:
            problems += pr
            break
    if done == 0:
        return core.outcome(undefined=True, labels=["another-member-errors"])
    labels.append(f"points:{min(done, 9)}")
    if excluded_points:
        labels.append("known:completed-on-last-line")
    ok = not problems
    summary = {"members": [member_text(m, "") for m in case["members"]], "records": case["table"]["records"],
               "abort_points": points[:6], "cause": case["cause"], "how": case["how"], "method": case["method"]}
    return core.outcome(ok=ok, nontrivial=nontrivial, labels=labels,
                        detail=None if ok else dict(summary, problems=problems[:6]), summary=summary)

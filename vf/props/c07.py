"""C07 - collect(), next() and fast_forward() are the same run.

case = one of the C01 / C13 / C04 case shapes (so stop/skip/advance/last/print/fail and
handled errors all occur).  Relations between fresh CsvPath instances:
  A = collect()   B = list(next())   C = fast_forward()
  A == B; state(A) == state(B) == state(C)
  for n in 1..len(A)+1: collect(nexts=n) == A[:n] and leaves the state B had at its n-th yield
"""
from hypothesis import strategies as st

from .. import core, real
from . import c01, c04, c13, common

ID = "C07"
LEVEL = "exploration"
RULE = (
    "cases are generated csvpaths (general programs, control-function programs with stop/skip/"
    "advance/last/print, fail/error programs under non-raising policies) over generated tables; "
    "metamorphic relations between collect(), next(), fast_forward() and collect(nexts=n) for every "
    "n in 1..matches+1 on fresh instances; non-trivial = >=2 lines returned and >=1 side effect "
    "(variable write or printout) after the first returned line; distinct = case hash"
)
ASSUMPTIONS = [
    "oracle is the relation itself (no reference model): all runs are the real code on fresh instances",
    "'stopped' after collect(nexts=n) is compared with its value at the n-th yield of next() (an early exit leaves the run unfinished by design, so it is not compared with the finished run)",
    "the list objects next() yielded are kept and must still equal their as-yielded copies after the run (list(path.next()) is the documented way to gather them)",
]

STATE = ("variables", "scan_count", "match_count", "is_valid", "errors", "printouts", "stopped")


def budget(tier):
    return 1300 if tier == "quick" else 16000


@st.composite
def _with_collect(draw, base):
    """C07 needs no model, so programs may also narrow the returned line with collect()"""
    c = draw(base)
    if draw(st.integers(0, 3)) == 1:
        cols = c["table"]["cols"]
        k = draw(st.integers(1, min(3, len(cols))))
        picks = draw(st.lists(st.integers(0, len(cols) - 1), min_size=k, max_size=k, unique=True))
        args = [["t", cols[i]["name"]] if draw(st.booleans()) else ["t", i] for i in picks]
        c["prog"]["comps"].insert(draw(st.integers(0, len(c["prog"]["comps"]))), ["f", "collect", [], args])
        c["collect"] = True
    modes = []
    # (collect(<headers>) is not combined with mode settings: narrowing the *unmatched* lines of a
    # ragged file is outside what the statement covers)
    if not c.get("collect") and draw(st.sampled_from([False, False, False, True])):
        modes.append(draw(st.sampled_from(["run-mode: no-run", "unmatched-mode: keep", "return-mode: no-matches", "unmatched-mode: keep return-mode: no-matches"])))
    c["modes"] = modes
    if not c.get("collect") and draw(st.integers(0, 7)) == 3:
        # header-changing components (no model needed here): the relation between the three methods stays
        nrec = len(c["table"]["records"])
        c["prog"]["comps"].insert(0, ["->", ["==", ["f", "line_number", [], []], ["t", draw(st.integers(1, max(1, nrec - 1)))]], ["f", "reset_headers", [], []]])
        c["prog"]["comps"].insert(1, ["f", "append", [], [["t", "seen"], ["f", "line_number", [], []]]])
        if draw(st.booleans()):
            # ... on lines that are all returned
            c["prog"]["comps"] = c["prog"]["comps"][:2] + [["f", "yes", [], []]]
            c["prog"]["mode"] = "AND"
        c["headers_change"] = True
    # the constructor argument skip_blank_lines=False: blank records are then scanned and matched like any other
    c["keep_blank"] = draw(st.sampled_from([False, False, False, True]))
    return c


def strategy(tier):
    return _with_collect(_strategy(tier))


def _strategy(tier):
    return st.one_of(
        c01._case().map(lambda c: {"shape": "c01", "table": c["table"], "scan": c["scan"], "prog": c["prog"], "policy": None}),
        c13._case().map(lambda c: {"shape": "c13", "table": c["table"], "scan": c["scan"], "prog": c["prog"], "policy": None}),
        c04._case().map(lambda c: {"shape": "c04", "table": c["table"], "scan": c["scan"], "prog": c["prog"], "policy": c["policy"]}),
    )


def run_case(case, sb):
    records = case["table"]["records"]
    if case["policy"]:
        sb.write_config(case["policy"])
    else:
        sb.write_config(["collect", "print"])
    rel = sb.write_csv("f.csv", records)
    text = common.text_of(case["prog"], rel, case["scan"])
    if case.get("modes"):
        # the relation holds under every mode setting
        meta = (["logic-mode: OR"] if case["prog"].get("mode") == "OR" else []) + case["modes"]
        text = common.text_of(case["prog"], rel, case["scan"], comment="~ " + " ".join(meta) + " ~ ")
    labels = ["shape:" + case["shape"]] + ["mode:" + m for m in case.get("modes", [])] + (["collect()"] if case.get("collect") else [])
    sbl = not case.get("keep_blank", False)
    if not sbl:
        labels.append("skip_blank_lines=False")
    if case.get("headers_change"):
        labels.append("reset_headers+append")
    A = real.run_path(text, method="collect", skip_blank_lines=sbl)
    B = real.run_next_with_snapshots(text, skip_blank_lines=sbl)
    C = real.run_path(text, method="fast_forward", skip_blank_lines=sbl)
    problems = []
    if A["raised"] or B["raised"] or C["raised"]:
        if not (A["raised"] and B["raised"] and C["raised"]):
            problems.append({"raised": {"collect": A["raised"], "next": B["raised"], "fast_forward": C["raised"]}})
        else:
            # all three end with an exception: at the same point, leaving the same state
            labels.append("all-three-raise")
            for k in STATE:
                if k != "stopped" and not (A[k] == B[k] == C[k]):
                    problems.append({"all_three_raise": True, "field": k, "collect": A[k], "next": B[k], "fast_forward": C[k]})
            if (A["raised"] or {}).get("raised") != (B["raised"] or {}).get("raised") or (A["raised"] or {}).get("raised") != (C["raised"] or {}).get("raised"):
                problems.append({"raised": {"collect": A["raised"], "next": B["raised"], "fast_forward": C["raised"]}})
            ok = not problems
            summary = {"csvpath": text, "records": records, "raised": A["raised"]}
            return core.outcome(ok=ok, nontrivial=False, labels=labels, detail=None if ok else dict(summary, problems=problems), summary=summary)
    else:
        if A["lines"] != B["lines"]:
            problems.append({"collect_lines": A["lines"], "next_lines": B["lines"]})
        if B["lines_retained"] != B["lines"]:
            # list(path.next()) must hold the lines as they were yielded
            problems.append({"next_lines_as_yielded": B["lines"], "same_objects_after_the_run": B["lines_retained"]})
        for k in STATE:
            if not (A[k] == B[k] == C[k]):
                problems.append({"field": k, "collect": A[k], "next": B[k], "fast_forward": C[k]})
        n_all = len(A["lines"])
        # (the n-th yield of next() is the reference below: only meaningful when the full runs agree)
        for n in (range(1, n_all + 2) if not problems else ()):
            D = real.run_path(text, method="collect", nexts=n, skip_blank_lines=sbl)
            if D["raised"]:
                problems.append({"nexts": n, "raised": D["raised"]})
                break
            if D["lines"] != A["lines"][:n]:
                problems.append({"nexts": n, "expected_lines": A["lines"][:n], "observed": D["lines"]})
                break
            if n <= n_all and n <= len(B["snapshots"]):
                snap = B["snapshots"][n - 1]
                for k in snap:
                    if k == "unmatched":
                        continue
                    if D[k] != snap[k]:
                        problems.append({"nexts": n, "field": k, "state_at_nth_yield": snap[k], "after_collect_nexts": D[k]})
                        break
            else:
                for k in STATE:
                    if k != "stopped" and D[k] != A[k]:
                        problems.append({"nexts": n, "field": k, "full_run": A[k], "after_collect_nexts": D[k]})
                        break
            if problems:
                break
    nontrivial = False
    if not problems and not A["raised"] and len(A["lines"]) >= 2:
        s1 = B["snapshots"][0]
        nontrivial = (s1["variables"] != A["variables"]) or (s1["printouts"] != A["printouts"])
    ok = not problems
    summary = {"csvpath": text, "records": records, "lines_returned": len(A["lines"] or [])}
    return core.outcome(ok=ok, nontrivial=nontrivial, labels=labels,
                        detail=None if ok else dict(summary, problems=problems[:5]), summary=summary)

"""C12 - named-paths groups round-trip and select by identity.

case = {"groups": {"g1": [[member...] versions...]}, "ops": [["add", g, version] | ["readd", g] | ["remove", g] | ["new"]]}
member = {"text": csvpath text, "identity": str|None}
"""
import contextlib
import hashlib
import io
import json
import os
import warnings

from hypothesis import strategies as st

from .. import core, real
from ..gen import progs, render

ID = "C12"
LEVEL = "exploration"
RULE = (
    "cases are histories (<=6 ops: add / identical re-add / replace / remove / new-instance on 2 group "
    "names) over lists of 1-5 generated csvpaths with optional outer comments (before or after the "
    "path) carrying id/Id/ID/name/Name/NAME metadata, inner comments, newlines and print strings; "
    "after every op the stored group is compared with an abstract model through the current and a "
    "fresh instance; non-trivial = a group of >=2 members with >=1 outer and >=1 inner comment and "
    "an identity lookup that is not the first member; distinct = case hash"
)
ASSUMPTIONS = [
    "oracle: abstract model name -> list of texts, manifest entry count (one per change of content), identity -> index",
    "texts are compared up to surrounding whitespace (statement)",
]
IDKEYS = ["id", "Id", "ID", "name", "Name", "NAME"]
GROUPS = ["g1", "g2"]
MARKER = "---- CSVPATH ----"


def budget(tier):
    return 1600 if tier == "quick" else 24000


@st.composite
def _member(draw, table, ident):
    prog = draw(progs.programs(table, kinds=("b", "b", "assign", "when", "print"), max_comps=4, depth=1, or_mode=False))
    scan = draw(progs.scans(table))
    nl = draw(st.booleans())
    seps = st.sampled_from([" ", "\n   ", " ~ note ~ ", "\n ~ a comment, with: punctuation ~\n ", "  ", "\n\n   ", "\n   \n"])

    def sep():
        return draw(seps)
    inner = False
    body_parts = [render.node(c) for c in prog["comps"]]
    body = ""
    for i, p in enumerate(body_parts):
        s = sep() if i else ""
        if "~" in s:
            inner = True
        body += s + p
    if draw(st.integers(0, 3)) == 0:
        body = "~ leading inner comment ~ " + body
        inner = True
    outer = ""
    keys = {}
    if ident is not None:
        k = draw(st.sampled_from(IDKEYS))
        keys[k] = ident
        if draw(st.integers(0, 3)) == 0:
            # a second, lower-priority key with another value: precedence id>Id>ID>name>Name>NAME
            lower = [x for x in IDKEYS if IDKEYS.index(x) > IDKEYS.index(k)]
            if lower:
                keys[draw(st.sampled_from(lower))] = ident + "x"
    free = draw(st.sampled_from(["", "", "this csvpath checks things", "v2 ---- draft", "owner is ops"]))
    if keys or free or draw(st.integers(0, 2)) == 0:
        fields = " ".join(f"{k}: {v}" for k, v in keys.items())
        desc = draw(st.sampled_from(["", " description: a test path", " note: second, third; and more"]))
        outer = f"~ {free} {fields}{desc} ~".replace("  ", " ")
    marker = False
    if draw(st.integers(0, 60)) == 37:
        outer = f"~ separator text {MARKER} inside a comment {(' id: ' + ident) if ident else ''} ~"
        marker = True
    path = f"$[{scan}][{' ' if not nl else chr(10) + '  '}{body}{' ' if not nl else chr(10)}]"
    after = draw(st.integers(0, 4)) == 0 and outer != ""
    gap = draw(st.sampled_from(["\n", "\n", " ", "\n\n", "\n  \n"])) if nl else " "
    text = (path + gap + outer) if after else ((outer + gap) if outer else "") + path
    if nl and draw(st.integers(0, 3)) == 0:
        text = text.replace("\n", "\r\n")   # written on Windows
    return {"text": text, "identity": ident, "outer": outer != "", "inner": inner, "marker": marker}


@st.composite
def _case(draw):
    table = draw(progs.tables(min_rows=1, max_rows=3))
    versions = []
    for v in range(draw(st.integers(1, 3))):
        n = draw(st.integers(1, 5))
        idents = []
        for i in range(n):
            k = draw(st.integers(0, 5))
            # (some identities end in the letters of ':to' / ':from')
            idents.append(None if k == 0 else (f"m{v}{i}" if k < 4 else ["ditto", "form", "room", "first", "photo"][i] + ["", "_to", "_from"][v]))
        versions.append([draw(_member(table, idents[i])) for i in range(n)])
    big = [v for v in versions if len(v) >= 2]
    if big and draw(st.integers(0, 2)) == 0:
        # the same members in another order are another group content
        v = draw(st.sampled_from(big))
        versions.append(list(draw(st.permutations(v))))
    ops = []
    for _ in range(draw(st.integers(1, 6))):
        k = draw(st.sampled_from(["add", "add", "add", "readd", "remove", "new"]))
        g = draw(st.sampled_from(GROUPS))
        if k == "add":
            ops.append(["add", g, draw(st.integers(0, len(versions) - 1))])
        elif k == "readd":
            ops.append(["readd", g])
        elif k == "remove":
            ops.append(["remove", g])
        else:
            ops.append(["new"])
    return {"versions": versions, "ops": ops}


def nln(t):
    """surrounding whitespace is not significant (statement); a CRLF line break inside a member reads back as a
    line break (the group file is a text file)"""
    return t.replace("\r\n", "\n").strip()


def strategy(tier):
    return _case()


def group_file_sha(sb, g):
    p = os.path.join(sb.root, "inputs", "named_paths", g, "group.csvpaths")
    with open(p, "rb") as f:
        return hashlib.sha256(f.read()).hexdigest()


def check_group(cps, sb, g, members, nman, who):
    pm = cps.paths_manager
    problems = []
    if members is None:
        got = core.call_real(pm.get_named_paths, g)
        if got is not None:
            problems.append({"who": who, "group": g, "expected": None, "observed": repr(got)[:300]})
        return problems
    texts = [nln(m["text"]) for m in members]
    got = core.call_real(pm.get_named_paths, g)
    if isinstance(got, core.Raised) or got is None:
        return [{"who": who, "group": g, "get_named_paths": repr(got)}]
    if [nln(t) for t in got] != texts:
        problems.append({"who": who, "group": g, "texts_expected": texts, "observed": [nln(t) for t in got]})
        return problems
    for i, m in enumerate(members):
        if m["identity"] is None:
            continue
        idn = m["identity"]
        for ref, exp in ((f"{g}#{idn}", [texts[i]]), (f"${g}.csvpaths.{idn}", [texts[i]]),
                         (f"{g}#{idn}:from", texts[i:]), (f"{g}#{idn}:to", texts[: i + 1]),
                         (f"${g}.csvpaths.{idn}:from", texts[i:]), (f"${g}.csvpaths.{idn}:to", texts[: i + 1])):
            r = core.call_real(pm.get_named_paths, ref)
            if isinstance(r, core.Raised) or r is None or [nln(t) for t in r] != exp:
                problems.append({"who": who, "ref": ref, "expected": exp, "observed": repr(r)[:400]})
    mp = os.path.join(sb.root, "inputs", "named_paths", g, "manifest.json")
    try:
        with open(mp) as f:
            man = json.load(f)
    except Exception as e:  # noqa: BLE001
        return problems + [{"who": who, "group": g, "manifest": repr(e)}]
    if len(man) != nman:
        problems.append({"who": who, "group": g, "manifest_entries_expected": nman, "observed": len(man)})
    if man:
        last = man[-1]
        h = group_file_sha(sb, g)
        if last.get("fingerprint") != h:
            problems.append({"who": who, "group": g, "fingerprint_expected": h, "observed": last.get("fingerprint")})
        ids = [m["identity"] if m["identity"] is not None else f"{i}" for i, m in enumerate(members)]
        if last.get("named_paths_identities") != ids:
            problems.append({"who": who, "group": g, "identities_expected": ids, "observed": last.get("named_paths_identities")})
    return problems


def run_case(case, sb):
    versions = case["versions"]
    labels = []
    has_marker = any(m["marker"] for v in versions for m in v)
    if has_marker:
        labels.append("marker-text")
        if core.finding_active("KF-C12-marker-text"):
            return core.outcome(excluded="KF-C12-marker-text", labels=labels)
    model = {}   # g -> (version index, manifest entries)
    problems = []
    nontrivial = False
    buf = io.StringIO()
    with warnings.catch_warnings(), contextlib.redirect_stdout(buf):
        cps = real.new_csvpaths()
        for i, op in enumerate(case["ops"]):
            if op[0] == "add":
                g, v = op[1], op[2]
                r = core.call_real(cps.paths_manager.add_named_paths, name=g, paths=[m["text"] for m in versions[v]])
                if isinstance(r, core.Raised):
                    problems.append({"step": i, "op": op, "raised": r.to_json()})
                    break
                if g in model:
                    oldv, n = model[g]
                    same = [m["text"] for m in versions[oldv]] == [m["text"] for m in versions[v]]
                    model[g] = (v, n if same else n + 1)
                else:
                    model[g] = (v, 1)
            elif op[0] == "readd":
                g = op[1]
                if g in model:
                    v, n = model[g]
                    r = core.call_real(cps.paths_manager.add_named_paths, name=g, paths=[m["text"] for m in versions[v]])
                    if isinstance(r, core.Raised):
                        problems.append({"step": i, "op": op, "raised": r.to_json()})
                        break
                    labels.append("identical-re-add")
            elif op[0] == "remove":
                g = op[1]
                r = core.call_real(cps.paths_manager.remove_named_paths, g)
                if isinstance(r, core.Raised):
                    problems.append({"step": i, "op": op, "raised": r.to_json()})
                    break
                model.pop(g, None)
            else:
                cps = real.new_csvpaths()
            for who, inst in (("current", cps), ("fresh-instance", real.new_csvpaths())):
                for g in GROUPS:
                    if g in model:
                        v, n = model[g]
                        pr = check_group(inst, sb, g, versions[v], n, who)
                        ms = versions[v]
                        if len(ms) >= 2 and any(m["outer"] for m in ms) and any(m["inner"] for m in ms) and any(m["identity"] for m in ms[1:]):
                            nontrivial = True
                    else:
                        pr = check_group(inst, sb, g, None, 0, who)
                    if pr:
                        problems.append({"step": i, "op": op, "violations": pr[:3]})
                        break
                if problems:
                    break
            if problems:
                break
    ok = not problems
    summary = {"ops": case["ops"], "versions": [[m["text"] for m in v] for v in versions]}
    return core.outcome(ok=ok, nontrivial=nontrivial, labels=labels,
                        detail=None if ok else dict(summary, problems=problems), summary=summary)

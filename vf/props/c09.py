"""C09 - the archived results of a run say what the run did.

case = {"table", "members": [{"prog","scan","id"|None,"unmatched":bool}], "method"}
After the run returns, the four representations (memory, data files, member manifests, run
manifest) must agree with each other and with the standalone run of every member.
"""
import csv
import hashlib
import json
import os

from hypothesis import strategies as st

from .. import core, real
from ..gen import progs
from . import c08, common

ID = "C09"
LEVEL = "exploration"
RULE = (
    "cases are groups of 1-4 generated csvpaths (JSON-representable variables, printouts, optional "
    "unmatched-mode: keep, identity or index naming, endings by exhaustion / stop() at a drawn line / "
    "fail()) over tables with a column of cells containing quotes, commas and newlines, run by one of the "
    "six methods on a fresh CsvPaths; non-trivial = >=1 member with data and >=1 of {printouts, errors, "
    "non-empty variables} and a returned cell that needs CSV quoting; distinct = case hash"
)
ASSUMPTIONS = [
    "the standalone CsvPath run of each member is the independent source of 'what the run did' (C08's relation)",
    "data.csv / unmatched.csv are parsed with csv.reader's default dialect (how the spooler writes them)",
    "time-, uuid- and path-valued manifest fields are not compared",
]
NOTES = ["plain", "a,b", 'say "hi"', "two\nlines", "semi;colon", " padded ", "", "q\"uote,comma"]


def budget(tier):
    return 640 if tier == "quick" else 8000


@st.composite
def _case(draw):
    table = draw(progs.tables(min_rows=2, max_rows=8))
    n = draw(st.integers(1, 4))
    members = []
    for i in range(n):
        scan = draw(progs.scans(table))
        prog = draw(progs.programs(table, kinds=("b", "b", "assign", "when", "se", "print", "print"), max_comps=4, depth=2, or_mode=False))
        ending = draw(st.sampled_from(["exhaust", "exhaust", "exhaust", "stop", "stop", "fail", "fail", "stop_all"]))
        nrec = len(table["records"])
        if ending == "stop":
            prog["comps"].append(["->", ["==", ["f", "line_number", [], []], ["t", draw(st.integers(1, nrec))]], ["f", "stop", [], []]])
        elif ending == "stop_all":
            # the cross-path stop: every member ends there (the standalone runs are then no reference: see run_case)
            prog["comps"].append(["->", ["==", ["f", "line_number", [], []], ["t", draw(st.integers(1, nrec))]], ["f", "stop_all", [], []]])
        elif ending == "fail":
            prog["comps"].append(["->", ["==", ["f", "line_number", [], []], ["t", draw(st.integers(1, nrec))]], ["f", "fail", [], []]])
        named = draw(st.sampled_from(["no", "no", "also", "only"]))
        if named != "no":
            # print("...", "audit"): a named printout stream; 'only' = the member prints to no other stream
            if named == "only":
                prog["comps"] = [c for c in prog["comps"] if not (c[0] == "f" and c[1] == "print")] or [["f", "yes", [], []]]
            prog["comps"].insert(draw(st.integers(0, len(prog["comps"]))),
                                 ["f", "print", [], [["pt", [["text", "audit "], ["ref", "csvpath", "line_number"]]], ["t", "audit"]]])
        if draw(st.integers(0, 3)) == 2:
            # a component that errors (collected, not raised) on the lines whose 'e' cell is 'x'
            prog["comps"].insert(draw(st.integers(0, len(prog["comps"]))), ["=", "zz", [], None, ["f", "add", [], [["h", "e"], ["t", 1]]]])
        members.append({"prog": prog, "scan": scan, "id": f"m{i}" if draw(st.integers(0, 3)) != 0 else None,
                        "unmatched": draw(st.integers(0, 2)) == 0, "ending": ending,
                        "norun": draw(st.sampled_from([False, False, False, False, True]))})
    # dense columns appended after program generation: 'e' (benign '5' or offending 'x') and awkward 'note' cells
    table["cols"].append({"name": "e", "type": "err", "dense": True})
    table["cols"].append({"name": "note", "type": "note", "dense": True})
    first = True
    ncols = len(table["cols"]) - 2
    for r in table["records"]:
        if not r:
            continue
        while len(r) < ncols:
            r.append("")
        del r[ncols:]
        r.append("e" if first else ("x" if draw(st.integers(0, 3)) == 1 else "5"))
        r.append("note" if first else draw(st.sampled_from(NOTES)))
        first = False
    case = {"table": table, "members": members, "method": draw(st.sampled_from(list(real.METHODS)))}
    if draw(st.integers(0, 5)) == 2:
        # an exception that escapes the match part (collect("note") on a row that lost its last cell) under
        # policies without 'raise': CsvPaths handles it and the run still has to be accounted for truthfully
        rows = [i for i, r in enumerate(table["records"]) if r][1:]
        j = draw(st.integers(0, n - 1))
        # (the member returns every data line, so limit_collection() meets the short row)
        members[j]["prog"] = {"comps": [["f", "print", [], [["pt", [["text", "row "], ["ref", "csvpath", "line_number"]]]]],
                                        ["f", "collect", [], [["t", "note"]]]], "mode": "AND", "ignore_vars": []}
        members[j]["scan"] = "1*"
        members[j]["ending"] = "exhaust"
        members[j]["norun"] = False
        members[j]["escapes"] = True
        case["method"] = draw(st.sampled_from(["collect_paths", "collect_paths", "collect_paths", "next_paths", "fast_forward_paths", "collect_by_line", "next_by_line"]))
        k = draw(st.sampled_from(rows))
        table["records"][k] = table["records"][k][:-1]
        case["policy"] = draw(st.sampled_from([["collect", "print"], ["collect", "fail", "print"], ["collect", "fail"]]))
        case["policies"] = ["collect", "print"]
    return case


def strategy(tier):
    return _case()


def member_text(m, filename=""):
    fields = []
    if m["id"] is not None:
        fields.append(f"id: {m['id']}")
    if m["unmatched"]:
        fields.append("unmatched-mode: keep")
    if m.get("norun"):
        fields.append("run-mode: no-run")
    meta = ("~ " + " ".join(fields) + " ~ ") if fields else ""
    return common.text_of(m["prog"], filename, m["scan"], comment=meta)


def read_csv(path):
    with open(path, newline="") as f:
        return [list(r) for r in csv.reader(f)]


def sha_file(path):
    with open(path, "rb") as f:
        return hashlib.sha256(f.read()).hexdigest()


def flat(entries):
    """printouts.txt holds one text line per line: an entry that contains a line break covers several"""
    return [seg for e in entries for seg in str(e).split("\n")]


def parse_printouts(path):
    out = {}
    cur = None
    with open(path) as f:
        for line in f.read().split("\n"):
            if line.startswith("---- PRINTOUT: "):
                cur = line[len("---- PRINTOUT: "):]
                out[cur] = []
            elif cur is not None:
                out[cur].append(line)
    for k in out:
        if out[k] and out[k][-1] == "":
            out[k].pop()
    return out


def run_case(case, sb):
    records = case["table"]["records"]
    members = case["members"]
    method = case["method"]
    sb.write_config(case.get("policy") or ["collect", "print"], case.get("policies") or ["raise", "collect"])
    rel = sb.write_csv("f.csv", records)
    labels = ["method:" + method]
    escapes = any(m.get("escapes") for m in members)
    if escapes:
        labels.append("exception-outside-match-part")
    ref = []
    for m in members:
        r = real.run_path(member_text(m, rel))
        if r["raised"] and not escapes:
            return core.outcome(undefined=True, labels=["standalone-raised"])
        r["completed"] = bool(r["_path"].completed)
        ref.append(r)
    c08.sb_reset_archive(sb)
    cps = real.new_csvpaths()
    texts = [member_text(m) for m in members]
    real.setup_group(sb, cps, "g", texts, "f", records)
    out = real.run_group(cps, "g", "f", method)
    problems = []
    summary = {"csvpaths": texts, "records": records, "method": method}
    if out["raised"]:
        problems.append({"raised": out["raised"]})
        return core.outcome(ok=False, nontrivial=True, labels=labels, detail=dict(summary, problems=problems), summary=summary)
    gdir = os.path.join(sb.root, "archive", "g")
    runs = [d for d in os.listdir(gdir) if os.path.isdir(os.path.join(gdir, d))] if os.path.isdir(gdir) else []
    if len(runs) != 1:
        problems.append({"run_directories": runs})
        return core.outcome(ok=False, nontrivial=True, labels=labels, detail=dict(summary, problems=problems), summary=summary)
    rdir = os.path.join(gdir, runs[0])
    try:
        with open(os.path.join(rdir, "manifest.json")) as f:
            rman = json.load(f)
    except Exception as e:  # noqa: BLE001
        problems.append({"run_manifest": repr(e)})
        rman = {}
    if rman.get("status") != "complete":
        problems.append({"run_manifest_status": rman.get("status")})
    expected_dirs = sorted((m["id"] if m["id"] is not None else str(i)) for i, m in enumerate(members))
    if any(m.get("ending") == "stop_all" for m in members):
        # members that stop_all() kept from starting have no result and no directory (the statement does not
        # cover them): one directory per member that has a result
        expected_dirs = sorted((m["id"] if m["id"] is not None else str(i)) for i, m in enumerate(members) if i < len(out["members"]))
    got_dirs = sorted(d for d in os.listdir(rdir) if os.path.isdir(os.path.join(rdir, d)))
    if got_dirs != expected_dirs:
        problems.append({"member_directories_expected": expected_dirs, "observed": got_dirs})
    collecting = method in ("collect_paths", "collect_by_line")
    nontrivial = False
    valids, completes, nerrors = [], [], 0
    signals = any(m.get("ending") == "stop_all" for m in members) or escapes
    if any(m.get("ending") == "stop_all" for m in members):
        labels.append("stop_all")
    for i, (m, r, o) in enumerate(zip(members, ref, out["members"])):
        if signals and i < len(out["_results"]):
            # with a cross-path signal a member's standalone run says nothing about its run in the group:
            # the in-memory result is the reference for what is on disk
            live = out["_results"][i].csvpath
            r = dict(o, _path=live, completed=bool(live.completed))
        name = m["id"] if m["id"] is not None else str(i)
        mdir = os.path.join(rdir, name)
        files = {}
        for fn in ("meta.json", "vars.json", "errors.json", "manifest.json"):
            try:
                with open(os.path.join(mdir, fn)) as f:
                    files[fn] = json.load(f)
            except Exception as e:  # noqa: BLE001
                problems.append({"member": name, "file": fn, "unreadable": repr(e)})
        if len(files) < 4:
            continue
        try:
            mem_vars = json.loads(json.dumps(out["_results"][i].csvpath.variables))
            alone_vars = json.loads(json.dumps(r["_path"].variables))
        except (TypeError, ValueError):
            return core.outcome(undefined=True, labels=["variables-not-json-representable"])
        if files["vars.json"] != mem_vars:
            problems.append({"member": name, "vars.json": files["vars.json"], "in_memory": mem_vars})
        if alone_vars != files["vars.json"]:
            problems.append({"member": name, "vars.json": files["vars.json"], "standalone": alone_vars})
        elines = [[e.get("line_count"), e.get("error")] for e in files["errors.json"]]
        if [e[0] for e in elines] != [e[0] for e in o["errors"]] or [e[0] for e in o["errors"]] != [e[0] for e in r["errors"]]:
            problems.append({"member": name, "errors.json_lines": elines, "in_memory": o["errors"], "standalone": r["errors"]})
        nerrors += len(o["errors"])
        pp = os.path.join(mdir, "printouts.txt")
        if r["errors"]:
            pass  # error text embeds instance ids: printouts not compared
        elif o["printouts"]:
            if not os.path.isfile(pp):
                problems.append({"member": name, "printouts.txt": "missing", "in_memory": o["printouts"]})
            else:
                got = parse_printouts(pp).get("default", [])
                alone_default = (r.get("printouts_named") or {}).get("default", [])
                if got != flat(o["printouts"]) or o["printouts"] != alone_default:
                    problems.append({"member": name, "printouts.txt": got, "in_memory": o["printouts"], "standalone": alone_default})
        elif os.path.isfile(pp) and parse_printouts(pp).get("default"):
            problems.append({"member": name, "printouts.txt": "present although nothing was printed"})
        if not r["errors"]:
            # every stream (default and named): standalone printer == Result in memory == sections of printouts.txt
            mem_named = {k: v for k, v in (o.get("printouts_named") or {}).items() if v}
            alone_named = {k: v for k, v in (r.get("printouts_named") or {}).items() if v}
            disk_named = {k: v for k, v in (parse_printouts(pp) if os.path.isfile(pp) else {}).items() if v}
            if not (mem_named == alone_named and {k: flat(v) for k, v in mem_named.items()} == disk_named):
                problems.append({"member": name, "printout_streams": {"standalone": alone_named, "in_memory": mem_named, "printouts.txt": disk_named}})
            if len(mem_named) > 1 or (mem_named and "default" not in mem_named):
                labels.append("named-printout-stream")
        dp = os.path.join(mdir, "data.csv")
        if collecting:
            got = read_csv(dp) if os.path.isfile(dp) else []
            if got != r["lines"]:
                problems.append({"member": name, "data.csv": got, "standalone_lines": r["lines"]})
            if r["lines"] and (r["printouts"] or r["errors"] or r["variables"]) and any(
                    any(ch in c for ch in ',"\n') for ln in r["lines"] for c in ln):
                nontrivial = True
        elif os.path.isfile(dp) and read_csv(dp):
            problems.append({"member": name, "data.csv": "non-empty for a non-collecting method"})
        up = os.path.join(mdir, "unmatched.csv")
        if method == "collect_paths" and m["unmatched"]:
            got = read_csv(up) if os.path.isfile(up) else []
            exp = [list(ln) for ln in (r["unmatched"] or [])]
            mem = [list(ln) for ln in (o["unmatched"] or [])]
            if got != mem or mem != exp:
                problems.append({"member": name, "unmatched.csv": got, "in_memory_unmatched": mem, "standalone_unmatched": exp})
        meta = files["meta.json"]
        rt = meta.get("runtime_data") or {}
        mprob = {}
        if meta.get("identity") != name:
            mprob["identity"] = meta.get("identity")
        for key, want in (("count_matches", o["match_count"]), ("count_scans", o["scan_count"]), ("valid", o["is_valid"])):
            got = rt.get(key)
            if isinstance(got, dict):   # keyed by identity when not local
                got = list(got.values())[0] if got else None
            if got != want:
                mprob[key] = {"meta.json": rt.get(key), "in_memory": want}
        try:
            want_md = json.loads(json.dumps(out["_results"][i].csvpath.metadata))
            if meta.get("metadata") != want_md:
                mprob["metadata"] = {"meta.json": meta.get("metadata"), "in_memory": want_md}
        except (TypeError, ValueError):
            pass
        if mprob:
            problems.append({"member": name, "meta.json": mprob})
        man = files["manifest.json"]
        if man.get("valid") != o["is_valid"] or o["is_valid"] != r["is_valid"]:
            problems.append({"member": name, "manifest.valid": man.get("valid"), "in_memory": o["is_valid"], "standalone": r["is_valid"]})
        if man.get("completed") != r["completed"]:
            problems.append({"member": name, "manifest.completed": man.get("completed"), "standalone_completed": r["completed"]})
        valids.append(o["is_valid"])
        completes.append(r["completed"])
        fps = man.get("file_fingerprints") or {}
        present = {fn: sha_file(os.path.join(mdir, fn)) for fn in ("data.csv", "meta.json", "unmatched.csv", "printouts.txt", "errors.json", "vars.json") if os.path.isfile(os.path.join(mdir, fn))}
        if fps != present:
            problems.append({"member": name, "manifest.file_fingerprints": fps, "recomputed": present})
        if man.get("instance_identity") != name:
            problems.append({"member": name, "manifest.instance_identity": man.get("instance_identity")})
    if len(valids) == len(out["members"]):
        if rman.get("all_valid") != all(valids):
            problems.append({"run_manifest.all_valid": rman.get("all_valid"), "members_valid": valids})
        if rman.get("all_completed") != all(completes):
            problems.append({"run_manifest.all_completed": rman.get("all_completed"), "members_completed": completes})
        if rman.get("error_count") != nerrors:
            problems.append({"run_manifest.error_count": rman.get("error_count"), "members_errors": nerrors})
        rv = core.call_real(cps.results_manager.is_valid, "g")
        if rv != all(valids):
            problems.append({"results_manager.is_valid": repr(rv), "members_valid": valids})
    if any(m["ending"] == "stop" for m in members):
        labels.append("ending:stop")
    if any(not v for v in valids):
        labels.append("invalid-member")
    if any(m["unmatched"] for m in members):
        labels.append("unmatched-keep")
    if any(m["id"] is None for m in members):
        labels.append("index-named")
    ok = not problems
    return core.outcome(ok=ok, nontrivial=nontrivial or (collecting and any(r["lines"] for r in ref)), labels=labels,
                        detail=None if ok else dict(summary, problems=problems[:8]), summary=summary)

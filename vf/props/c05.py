"""C05 - errors in match components are handled exactly as the error policy says.

case = {"policy": [...], "route": "ini"|"attr", "override": None|"raise"|"no-raise"|...,
        "kind": "args"|"rule"|"pyexc"|"nested"|"when", "bad": [data line indexes], "place": 0..2}
File: header + 5 data lines (id, v); v is benign except on the offending lines.
"""
import itertools

from .. import core, real
from ..model import errpolicy

ID = "C05"
LEVEL = "exploration"
RULE = (
    "cases are (policy subset of {raise,collect,stop,fail,print,quiet}, route the policy is set by, "
    "validation-mode override, error kind, offending line positions, position of the offending "
    "component); non-trivial = at least one offending line is reached; distinct = distinct tuple"
)
ASSUMPTIONS = [
    "oracle is vf/model/errpolicy.py: one line per flag, straight from the C05 statement",
    "an error record is required for every offending line reached (>=1 record; the count per line is not fixed by the statement)",
    "under validation-mode: match whether the offending line is returned is not compared",
    "when the exception reaches the caller, 'stop' has nothing left to observe",
]
ENUM_EXHAUSTIVE = {
    "thorough": "63 policies x 2 routes x 15 override settings (4 of them combinations) x 7 error kinds x (4 offending-line patterns x 3 component positions + 1 header-row-at-line-0 case + 1 stop()-on-the-offending-line case)",
}

FLAGS = ["raise", "collect", "stop", "fail", "print", "quiet"]
OVERRIDES = [None, "raise", "no-raise", "stop", "no-stop", "fail", "no-fail", "print", "no-print", "match", "no-match",
             # several settings in one comment: each flag is overridden on its own
             "match, stop", "stop, no-fail", "match, no-raise, fail", "no-raise, no-stop, print"]
KINDS = {
    # kind: (component, benign value, offending value)
    "args": ('@z = add(#v, 1)', "5", "x"),
    "rule": ('@z = substring("abcdef", int(#v))', "2", "-1"),
    "pyexc": ('@z = mod(7, #v)', "3", "0"),
    "nested": ('not(equals(add(#v, 1), 0))', "5", "x"),
    "when": ('yes() -> @z = add(#v, 1)', "5", "x"),
    "emptyval": ('not(#id == "") -> @z = add(#v, 1)', "5", "x"),
    # a component that is False on some of the benign lines (v = 2): an error on an earlier line must not
    # change what later lines decide
    # (between() itself rejects the offending value: the top-level function's own argument check fails)
    "falsey": ('between(#v, 3, 9)', ["5", "2"], "x"),
}
BADS = [[0], [2], [4], [1, 3]]


def budget(tier):
    return 0


def _all_cases():
    pols = []
    for r in range(1, 7):
        for p in itertools.combinations(FLAGS, r):
            pols.append(list(p))
    for pol in pols:
        for route in ("ini", "attr"):
            for ov in OVERRIDES:
                for kind in KINDS:
                    for bad in BADS:
                        for place in range(3):
                            yield {"policy": pol, "route": route, "override": ov,
                                   "kind": kind, "bad": bad, "place": place, "hdr": False}
                    # the header row itself (physical line 0) is scanned and offends
                    yield {"policy": pol, "route": route, "override": ov,
                           "kind": kind, "bad": [2], "place": 1, "hdr": True}
                    # the error happens in a 'last() ->' action fired on the file's blank final line
                    if kind in ("args", "pyexc"):
                        yield {"policy": pol, "route": route, "override": ov,
                               "kind": kind, "bad": [], "place": 1, "hdr": False, "lastblank": True}
                    # a later component of the offending line stops the run: the error is still handled
                    yield {"policy": pol, "route": route, "override": ov,
                           "kind": kind, "bad": [1, 3], "place": 0, "hdr": False, "stopper": True}


def enumerate_cases(tier, seed):
    if tier == "thorough":
        yield from _all_cases()
        return
    seen = set()
    for i, c in enumerate(_all_cases()):
        # every (policy, kind, override) at least once; for three override settings once per route
        k = (tuple(c["policy"]), c["kind"], c["override"], c["route"] if c["override"] in (None, "match", "no-raise") else "any")
        h = core.hash32(seed, "c05", i) % 100
        if h < 3 or k not in seen:
            seen.add(k)
            yield c


def run_case(case, sb):
    comp, good, badv = KINDS[case["kind"]]
    bad = case["bad"]
    goods = good if isinstance(good, list) else [good]
    records = [["id", "v"]] + [[f"d{i}", badv if i in bad else goods[i % len(goods)]] for i in range(5)]
    false_lines = [i + 1 for i in range(5) if i not in bad and goods[i % len(goods)] == "2"] if case["kind"] == "falsey" else []
    lastblank = case.get("lastblank", False)
    if lastblank:
        records.append([])
        comp = 'last.nocontrib() -> @z = add("x", 1)' if case["kind"] == "args" else 'last.nocontrib() -> @z = mod(7, 0)' 
    pol = case["policy"]
    if case["route"] == "ini":
        sb.write_config(pol)
        attr = None
    else:
        other = ["collect"] if "collect" not in pol or len(pol) > 1 else ["print"]
        if "raise" not in pol and len(pol) % 2 == 1:
            # what config.ini says must not matter once the policy is set on the instance: here it says 'raise'
            other = ["raise", "collect", "print"]
        sb.write_config(other)
        attr = pol
    rel = sb.write_csv("f.csv", records)
    comps = ["#id", "yes()"]
    comps.insert(case["place"], comp)
    if case.get("stopper"):
        comps = [comp, f'stop(#id == "d{bad[0]}")', "#id", "yes()"]
    ov = case["override"]
    comment = f"~ validation-mode: {ov} ~ " if ov else ""
    hdr = case.get("hdr", False)
    text = f'{comment}${rel}[{"*" if hdr else "1*"}][ push("tr", line_number()) {" ".join(comps)} ]'
    res = real.run_path(text, policy=attr)
    exp = errpolicy.expect(pol, ov, ([0] if hdr else []) + [b + 1 for b in bad], list(range(0 if hdr else 1, 6)))
    if case.get("stopper"):
        # stop() on the first offending line ends the run there whatever the policy says
        exp = errpolicy.expect(pol, ov, [bad[0] + 1], list(range(1, bad[0] + 2)))
        # (the stopping line is not returned: stop() is not the final component)
        exp["returned_must"] = [n for n in exp["returned_must"] if n != bad[0] + 1]
    if lastblank:
        # all five data lines are fine; the error is raised on the blank final line (6), where only
        # last() components run (no 'tr' push there) and no line is returned
        exp = errpolicy.expect(pol, ov, [6], list(range(1, 7)))
        exp["lines_run"] = [1, 2, 3, 4, 5]
        exp["returned_must"] = [1, 2, 3, 4, 5]
        exp["returned_must_not"] = []
    if false_lines and not lastblank:
        exp["returned_must"] = [n for n in exp["returned_must"] if n not in false_lines]
        exp["returned_must_not"] = sorted(set(exp["returned_must_not"]) | set(n for n in false_lines if n in exp["lines_run"]))
    labels = [f"kind:{case['kind']}", f"route:{case['route']}", f"override:{ov}",
              "policy:" + "+".join(pol)] if False else [f"kind:{case['kind']}", f"route:{case['route']}", f"override:{ov}"]
    labels += ["flag:" + f for f in pol]
    problems = []
    raised = res["raised"] is not None
    if raised != exp["raises"]:
        problems.append({"raises_expected": exp["raises"], "observed": res["raised"]})
    err_lines = sorted(set(e[0] for e in res["errors"]), key=lambda v: (0, v, "") if isinstance(v, int) else (1, 0, str(v)))
    if err_lines != exp["error_lines"]:
        problems.append({"error_lines_expected": exp["error_lines"], "observed": res["errors"]})
    if res["is_valid"] != exp["is_valid"]:
        problems.append({"is_valid_expected": exp["is_valid"], "observed": res["is_valid"]})
    tr = res["variables"].get("tr", [])
    if tr != exp["lines_run"]:
        problems.append({"lines_run_expected": exp["lines_run"], "observed": tr})
    printed = len(res["printouts"]) > 0
    if printed != exp["printed"]:
        problems.append({"printed_expected": exp["printed"], "observed": res["printouts"][:3]})
    if not raised and not exp["raises"]:
        ids = [(ln[0] if ln else None) for ln in res["lines"]]
        must = [("id" if n == 0 else f"d{n-1}") for n in exp["returned_must"]]
        mustnot = [("id" if n == 0 else f"d{n-1}") for n in exp["returned_must_not"]]
        if any(m not in ids for m in must) or any(m in ids for m in mustnot) or len(ids) != len(set(ids)):
            problems.append({"returned_must": must, "returned_must_not": mustnot, "observed": ids})
    ok = not problems
    summary = {"csvpath": text, "policy": pol, "route": case["route"], "records": records, "expected": exp}
    return core.outcome(ok=ok, nontrivial=True, labels=labels,
                        detail=None if ok else dict(summary, problems=problems,
                                                    observed={k: res[k] for k in ("raised", "errors", "is_valid", "printouts", "lines")}),
                        summary=summary)

"""C16 - print() emits its text verbatim with references replaced by current values.

case = {"table", "scan", "chunks": [["text", s] | ["ref", kind, ...]], "quals": [], "decider": node|None}
Program:  ~ id: pid mk: mval ~ $f[scan][ @x = <expr>  @t = <expr>  push("stk", #id)  print.<quals>("<template>")  <decider>? ]
"""
import contextlib
import io
import warnings

from hypothesis import strategies as st

from .. import core, real
from ..gen import progs, render
from ..model import refinterp
from ..sandbox import CapturePrinter
from . import common

ID = "C16"
LEVEL = "exploration"
RULE = (
    "cases are print templates built from text chunks (letters, digits, spaces, punctuation other than "
    "$ \" ~) and reference chunks ($.variables.x, .stack.N, .stack.length, $.headers.name|N, "
    "$.metadata.key, $.csvpath.field) in any arrangement, with the documented '..' escape, print / "
    "print.onmatch / print.once, two printers; expected output = text chunks + str(value at that point "
    "of that line) from the reference interpreter; non-trivial = >=2 references of which two are "
    "adjacent or separated by a single character; distinct = case hash"
)
ASSUMPTIONS = [
    "templates neither start nor end with whitespace (whole-string trimming is not part of the statement)",
    "a text chunk that follows a reference starts with a documented name terminator or the '..' escape",
    "'~' is excluded from text chunks besides '$' and '\"' (it delimits csvpath comments)",
    "header references are compared up to surrounding whitespace of the cell",
]

TERMINATORS = list(" !^:,;%()-+@#{}&<>/|?'")
TEXTCH = list("abcXYZ019 _-=+*/\\!?,;:%&()<>{}|^@#'`.") + ["[", "]"]
CSVPATH_FIELDS = ["line_number", "count_scans", "count_matches", "identity", "delimiter", "quotechar", "valid", "stopped",
                  "count_lines", "count_lines", "count_lines", "line_number", "count_scans", "count_matches"]

# thorough tier: additionally a coverage-guided campaign (vf/fuzz.py) over the same strategy and oracle
FUZZ = {"runs": 1500, "procs": 8}


def budget(tier):
    return 3200 if tier == "quick" else 48000


@st.composite
def _case(draw):
    table = draw(progs.tables(min_rows=1, max_rows=6, ragged=draw(st.sampled_from([False, False, True])), extra=False, pad=False, space_cells=False))
    scan = draw(progs.scans(table))
    env = progs.Env(table)
    x_expr, _ = draw(st.sampled_from(["n", "s"])), None
    xe = progs.expr_n(draw, env, 1) if x_expr == "n" else progs.expr_s(draw, env, 1)
    te = progs.expr_s(draw, env, 0)
    if draw(st.integers(0, 6)) == 3:
        te = ["f", "none", [], []]   # '@t = none()': a reference to a None-valued variable prints str(None)
    dense = [c for c in table["cols"] if c["dense"]]
    n = draw(st.integers(1, 6))
    chunks = []
    prev_ref = False
    for i in range(n):
        kind = draw(st.sampled_from(["ref", "ref", "ref", "text"]))
        if prev_ref and kind == "ref" and draw(st.integers(0, 5)) != 0:
            kind = "text"  # mostly separate references by >=1 character (direct adjacency is a labelled minority)
        if kind == "text" or (i == 0 and draw(st.booleans())):
            ln = draw(st.integers(1, 5)) if draw(st.booleans()) else 1
            s = "".join(draw(st.lists(st.sampled_from(TEXTCH), min_size=ln, max_size=ln)))
            if prev_ref:
                lead = draw(st.sampled_from(TERMINATORS + ["."]))
                s = lead + s[1:] if len(s) > 1 else lead
            chunks.append(["text", s])
            prev_ref = False
            continue
        r = draw(st.sampled_from(["var", "var2", "stackidx", "stacklen", "hname", "hidx", "meta", "csvpath", "csvpath", "csvpath",
                                  "track", "numidx", "numlen", "sparse"]))
        sparse = [c for c in table["cols"] if not c["dense"] and " " not in c["name"]]
        if r == "sparse" and not sparse:
            r = "track"
        if r == "track":
            chunks.append(["ref", "vartrack", "d", "k"])
        elif r == "numidx":
            chunks.append(["ref", "stackidx", "nums", 0])
        elif r == "numlen":
            chunks.append(["ref", "stacklen", "nums"])
        elif r == "sparse":
            chunks.append(["ref", "hname", draw(st.sampled_from(sparse))["name"]])
        elif r == "var":
            chunks.append(["ref", "var", "x"])
        elif r == "var2":
            chunks.append(["ref", "var", "t"])
        elif r == "stackidx":
            chunks.append(["ref", "stackidx", "stk", 0])
        elif r == "stacklen":
            chunks.append(["ref", "stacklen", "stk"])
        elif r == "hname":
            c = draw(st.sampled_from([c for c in dense if " " not in c["name"]]))
            chunks.append(["ref", "hname", c["name"]])
        elif r == "hidx":
            chunks.append(["ref", "hidx", draw(st.integers(0, len(dense) - 1))])
        elif r == "meta":
            chunks.append(["ref", "meta", "mk", "mval"])
        else:
            chunks.append(["ref", "csvpath", draw(st.sampled_from(CSVPATH_FIELDS)), "pid"])
        prev_ref = True
    sparse_cols = [c for c in table["cols"] if not c["dense"] and " " not in c["name"]]
    if sparse_cols and draw(st.integers(0, 4)) == 3:
        # end with '<text ending in a space><reference that is empty on some lines>'
        if chunks[-1][0] == "ref":
            chunks.append(["text", draw(st.sampled_from([" aka ", ", ", ": ", " - "]))])
        else:
            chunks[-1][1] = chunks[-1][1].rstrip(" ") + " "
        chunks.append(["ref", "hname", draw(st.sampled_from(sparse_cols))["name"]])
    # no leading/trailing whitespace in the whole template
    if chunks[0][0] == "text":
        chunks[0][1] = chunks[0][1].lstrip(" ") or "a"
    if chunks[-1][0] == "text":
        t = chunks[-1][1].rstrip(" ")
        if not t:
            t = "," if len(chunks) > 1 and chunks[-2][0] == "ref" else "a"
        chunks[-1][1] = t
    quals = draw(st.sampled_from([[], [], ["onmatch"], ["once"]]))
    dk = progs.expr_n(draw, env, 0) if draw(st.booleans()) else ["t", 0]
    numv = progs.expr_n(draw, env, 0) if draw(st.booleans()) else ["t", 0]
    pop_where = draw(st.sampled_from(["none", "none", "before", "after"]))
    if quals == ["onmatch"] and pop_where == "after":
        pop_where = "before"
    decider = None
    if draw(st.booleans()) or quals == ["onmatch"]:
        nrec = len(table["records"])
        decider = ["f", "in", [], [["h", "id"], ["t", "|".join(f"r{i}" for i in draw(st.lists(st.integers(0, nrec), min_size=1, max_size=4)))]]]
    # the tracking key may be all digits ('@d.7 = ...' / '$.variables.d.7'): d is a dict, so the digits are a key
    dkey = draw(st.sampled_from(["k", "k", "7", "2024"]))
    chunks = [[c[0], c[1], c[2], dkey] if (c[0] == "ref" and c[1] == "vartrack") else c for c in chunks]
    return {"table": table, "scan": scan, "x": xe, "t": te, "chunks": chunks, "quals": quals, "decider": decider,
            "dk": dk, "numv": numv, "pop": pop_where, "dkey": dkey}


def strategy(tier):
    return _case()


def escape_chunks(chunks):
    """apply the documented escaping: a literal '.' right after a reference is written '..'"""
    out = []
    prev_ref = False
    for ch in chunks:
        if ch[0] == "text":
            s = ch[1]
            if prev_ref and s.startswith("."):
                s = "." + s
            out.append(["text", s])
            prev_ref = False
        else:
            out.append(ch)
            prev_ref = True
    return out


def run_case(case, sb):
    records = case["table"]["records"]
    chunks = case["chunks"]
    comps = [["=", "x", [], None, case["x"]], ["=", "t", [], None, case["t"]],
             ["f", "push", [], [["t", "stk"], ["h", "id"]]]]
    if case.get("dk") is not None:
        comps.append(["=", "d", [], case.get("dkey", "k"), case["dk"]])
        comps.append(["f", "push", [], [["t", "nums"], case["numv"]]])
        if case.get("pop") == "before":
            comps.append(["=", "p", [], None, ["f", "pop", [], [["t", "nums"]]]])
    comps.append(["f", "print", case["quals"], [["pt", chunks]]])
    if case.get("dk") is not None and case.get("pop") == "after":
        comps.append(["=", "p", [], None, ["f", "pop", [], [["t", "nums"]]]])
    if case["decider"] is not None:
        comps.append(case["decider"])
    prog = {"comps": comps, "mode": "AND"}
    # rendering uses the escaped template; the model uses the raw chunks
    rprog = {"comps": [c if not (c[0] == "f" and c[1] == "print") else ["f", "print", case["quals"], [["pt", escape_chunks(chunks)]]] for c in comps], "mode": "AND"}
    rel = sb.write_csv("f.csv", records)
    text = common.text_of(rprog, rel, case["scan"], comment="~ id: pid mk: mval ~ ")
    nrefs = sum(1 for c in chunks if c[0] == "ref")
    close = False
    for i, c in enumerate(chunks):
        if c[0] != "ref":
            continue
        if i + 1 < len(chunks) and chunks[i + 1][0] == "ref":
            close = True
        if i + 2 < len(chunks) and chunks[i + 1][0] == "text" and len(chunks[i + 1][1]) == 1 and chunks[i + 2][0] == "ref":
            close = True
    labels = ["quals:" + "+".join(case["quals"] or ["none"])] + (["tracking-key:digits"] if str(case.get("dkey", "k")).isdigit() else [])
    if close:
        labels.append("adjacent-or-one-char")
    for c in chunks:
        if c[0] == "ref":
            labels.append("ref:" + c[1] + (":" + str(c[2]) if c[1] == "csvpath" else ""))
    adjacent = any(chunks[i][0] == "ref" and chunks[i + 1][0] == "ref" for i in range(len(chunks) - 1))
    if adjacent:
        labels.append("directly-adjacent")
        if core.finding_active("KF-C16-adjacent-refs"):
            return core.outcome(excluded="KF-C16-adjacent-refs", labels=labels)
    it = refinterp.Interp(prog, records, common.scanset(case["scan"], len(records)))
    # a header reference on a row too short to hold it: what is printed for it is not fixed by the
    # statement, but the entry must still be produced with every other character in place
    WILD = "\x00ANY\x00"
    it.absent_header_wildcard = WILD
    orig_ref = it._ref_value

    def ref_value(ch):
        if ch[1] == "csvpath":
            f = ch[2]
            if f == "count_matches":
                return str(it.res.match_count + (1 if (case["quals"] == ["onmatch"]) else 0))
            if f == "stopped":
                return "False"
        return orig_ref(ch)
    it._ref_value = ref_value
    try:
        model = it.run()
    except refinterp.Undefined as u:
        return core.outcome(undefined=True, labels=["undefined:" + str(u)[:40]])
    except (ZeroDivisionError, OverflowError, ValueError):
        return core.outcome(undefined=True, labels=["undefined:arith"])
    # real run with two printers
    buf = io.StringIO()
    raised = None
    with warnings.catch_warnings(), contextlib.redirect_stdout(buf):
        p, cp = real.new_path()
        cp2 = CapturePrinter()
        p.add_printer(cp2)
        try:
            p.parse(text)
            p.collect()
        except Exception as e:  # noqa: BLE001
            raised = core.Raised(e).to_json()
    problems = []
    summary = {"csvpath": text, "records": records, "expected": model.printouts}
    if raised:
        problems.append({"raised": raised})
    else:
        def norm(lines):
            return lines
        if cp.lines != cp2.lines:
            problems.append({"printer1": cp.lines, "printer2": cp2.lines})
        exp = model.printouts
        got = cp.lines
        if any(WILD in e for e in exp):
            import re as _re
            labels.append("absent-header-reference")
            same = len(exp) == len(got) and all(
                _re.fullmatch(".*?".join(_re.escape(part) for part in e.split(WILD)), g, flags=_re.S) is not None
                for e, g in zip(exp, got))
            if not same:
                problems.append({"expected_pattern": [e.replace(WILD, "<any>") for e in exp], "observed": got})
        elif got != exp:
            # header cells may carry surrounding whitespace: compare with stripped header values too
            problems.append({"expected": exp, "observed": got})
        if p.errors:
            problems.append({"errors": real.errors_of(p)})
    nontrivial = nrefs >= 2 and close
    ok = not problems
    return core.outcome(ok=ok, nontrivial=nontrivial, labels=labels,
                        detail=None if ok else dict(summary, problems=problems[:4]), summary=summary)

"""C13 - stop, skip, advance and last control the run as documented.

case = {"table", "scan", "prog"} where prog = side-effecting components (each pushes
line_number() to its own stack or prints) with one control function at a drawn position.
"""
from hypothesis import strategies as st

from .. import core, real
from ..gen import progs
from . import common

ID = "C13"
LEVEL = "exploration"
RULE = (
    "cases are 1-5 side-effecting components (own stack push of line_number(), print) plus optional "
    "deciders, with one control function (stop()/stop(c)/c->stop(), skip forms, c->advance(n), "
    "last()->action, last.nocontrib()->action, bare last()) at a drawn position, firing on a drawn line, "
    "over all scan windows and tables with interior/trailing blank records; compared: returned lines, "
    "every stack, printouts, scan/match counts; non-trivial = the control fires on a scanned line that is "
    "neither the first nor the last scanned and >=1 side-effecting component follows it; distinct = case hash"
)
ASSUMPTIONS = [
    "oracle: control semantics of vf/model/refinterp.py, from the C13 statement and docs/functions/{stop,advance,last}.md",
    "a scan that ends on an interior blank record with last() present is UNDEFINED (not compared)",
    "in runs that advance, scan_count/count_scans() are not compared (statement leaves it open)",
]


def budget(tier):
    return 2400 if tier == "quick" else 40000


def _cond(draw, table, nrec):
    k = draw(st.sampled_from(["ln", "ln", "id", "data"]))
    if k == "ln":
        return ["==", ["f", "line_number", [], []], ["t", draw(st.integers(0, nrec))]]
    if k == "id":
        return ["==", ["h", "id"], ["t", f"r{draw(st.integers(0, max(0, nrec - 2)))}"]]
    return ["f", "in", [], [["h", "id"], ["t", "|".join(f"r{i}" for i in draw(st.lists(st.integers(0, nrec), min_size=1, max_size=3)))]]]


@st.composite
def _case(draw):
    table = draw(progs.tables(min_rows=2, max_rows=9))
    nrec = len(table["records"])
    # one case in four may scan the header row (physical line 0) too: control functions can fire there
    scan = draw(progs.scans(table, from_data=draw(st.sampled_from([True, True, True, False]))))
    n = draw(st.integers(1, 5))
    comps = []
    for i in range(n):
        if draw(st.integers(0, 4)) == 0:
            comps.append(["f", "print", [], [["t", f"p{i}"]]])
        else:
            comps.append(["f", "push", [], [["t", f"s{i}"], ["f", "line_number", [], []]]])
    if draw(st.integers(0, 2)) == 0:
        # a decider so that some lines do not match
        comps.insert(draw(st.integers(0, len(comps))),
                     ["f", "in", [], [["h", "id"], ["t", "|".join(f"r{i}" for i in draw(st.lists(st.integers(0, nrec), min_size=1, max_size=5)))]]])
    kind = draw(st.sampled_from(["stop", "stop_c", "when_stop", "skip", "skip_c", "when_skip",
                                 "advance", "advance", "last", "last", "last_nc", "last_bare", "fail_and_stop"]))
    c = _cond(draw, table, nrec)
    act = ["f", "push", [], [["t", "lastact"], ["f", "line_number", [], []]]]
    if kind == "stop":
        ctl = ["->", c, ["f", "stop", [], []]] if draw(st.booleans()) else ["f", "stop", [], [c]]
    elif kind == "stop_c":
        ctl = ["f", "stop", [], [c]]
    elif kind == "when_stop":
        ctl = ["->", c, ["f", "stop", [], []]]
    elif kind == "fail_and_stop":
        ctl = ["->", c, ["f", "fail_and_stop", [], []]] if draw(st.booleans()) else ["f", "fail_and_stop", [], [c]]
    elif kind == "skip":
        ctl = ["->", c, ["f", "skip", [], []]] if draw(st.booleans()) else ["f", "skip", [], [c]]
    elif kind == "skip_c":
        ctl = ["f", "skip", [], [c]]
    elif kind == "when_skip":
        ctl = ["->", c, ["f", "skip", [], []]]
    elif kind == "advance":
        ctl = ["->", c, ["f", "advance", [], [["t", draw(st.integers(1, 3))]]]]
    elif kind == "last":
        ctl = ["->", ["f", "last", [], []], act]
    elif kind == "last_nc":
        ctl = ["->", ["f", "last", ["nocontrib"], []], act]
    else:
        ctl = ["f", "last", [], []]
    if kind == "advance" and draw(st.integers(0, 2)) != 0:
        scan = draw(progs.gap_scans(table))  # advance across gaps of a non-contiguous scan
    elif draw(st.sampled_from([False, False, False, True])):
        scan = draw(progs.gap_scans(table))  # '+'-lists, sometimes written in a non-ascending order
    pos = draw(st.integers(0, len(comps)))
    if kind.startswith("last") and kind != "last_bare":
        pos = len(comps)  # a 'last() ->' component comes last (quantifier of C01/C13)
    comps.insert(pos, ctl)
    return {"table": table, "scan": scan, "prog": {"comps": comps, "mode": "AND", "ignore_vars": []},
            "kind": kind, "ctl_pos": pos}


def strategy(tier):
    return _case()


def run_case(case, sb):
    records = case["table"]["records"]
    prog = case["prog"]
    rel = sb.write_csv("f.csv", records)
    text = common.text_of(prog, rel, case["scan"])
    labels = ["kind:" + case["kind"]]
    terms = [int(t.split("-")[0]) for t in case["scan"].split("+")] if "+" in case["scan"] else []
    if terms and terms != sorted(terms):
        labels.append("unordered-scan-list")
    if records and records[-1] == []:
        labels.append("trailing-blank")
    if any(r == [] for r in records[1:-1]):
        labels.append("interior-blank")
    model, undef = common.model_run(prog, records, case["scan"])
    if model is None:
        return core.outcome(undefined=True, labels=["undefined:" + undef[:40]])
    res = real.run_path(text)
    summary = {"csvpath": text, "records": records, "expected_positions": model.returned,
               "expected_variables": common.norm_model_vars(model.variables)}
    problems = []
    if res["raised"]:
        problems.append({"raised": res["raised"]})
    else:
        exp_lines = [records[p] for p in model.returned]
        if res["lines"] != exp_lines:
            problems.append({"expected_lines": exp_lines, "observed_lines": res["lines"]})
        mv = common.norm_model_vars(model.variables)
        rv = {k: v for k, v in res["variables"].items() if not k.startswith("_intx_")}
        for k in set(mv) | set(rv):
            a, b = mv.get(k), rv.get(k)
            if a in (None, []) and b in (None, []):
                continue
            if a != b:
                problems.append({"variable": k, "expected": a, "observed": b})
        if res["printouts"] != model.printouts:
            problems.append({"printouts_expected": model.printouts, "observed": res["printouts"]})
        if res["match_count"] != model.match_count:
            problems.append({"match_count_expected": model.match_count, "observed": res["match_count"]})
        if not model.advanced and res["scan_count"] != model.scan_count:
            problems.append({"scan_count_expected": model.scan_count, "observed": res["scan_count"]})
        if res["is_valid"] != model.is_valid:
            problems.append({"is_valid_expected": model.is_valid, "observed": res["is_valid"]})
        if res["errors"]:
            problems.append({"errors": res["errors"]})
    # non-trivial
    scanned = [t["pos"] for t in model.lines]
    nontrivial = False
    for (pos, ci, what) in model.fired:
        labels.append("fired:" + what)
        if scanned and pos not in (scanned[0], scanned[-1]) and ci < len(prog["comps"]) - 1:
            nontrivial = True
    if case["kind"].startswith("last") and "lastact" in model.variables:
        labels.append("fired:last")
        nontrivial = nontrivial or len(scanned) >= 2
    ok = not problems
    return core.outcome(ok=ok, nontrivial=nontrivial, labels=labels,
                        detail=None if ok else dict(summary, problems=problems[:6]), summary=summary)

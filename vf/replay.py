"""Re-execute one replay file without Hypothesis.
python -m vf.replay <file>   exit 0: property holds on it, 1: still fails, 2: harness error
"""
import importlib
import json
import sys
import traceback
import warnings

from . import core
from .sandbox import Sandbox, assert_repo_code


def replay_file(path, verbose=True):
    with open(path) as f:
        rp = json.load(f)
    prop = rp["property"]
    sb = Sandbox(tag=f"{prop.lower()}rp")
    try:
        assert_repo_code()
        mod = importlib.import_module(f"vf.props.{prop.lower()}")
        if hasattr(mod, "setup_worker"):
            mod.setup_worker(sb)
        sb.reset()
        with warnings.catch_warnings():
            out = mod.run_case(rp["case"], sb)
    finally:
        sb.close()
    if verbose:
        print(json.dumps({"property": prop, "ok": out["ok"], "excluded": out["excluded"],
                          "undefined": out["undefined"], "detail": out["detail"]},
                         indent=1, default=str)[:6000])
    return out


def main():
    if len(sys.argv) != 2:
        print(__doc__)
        sys.exit(2)
    try:
        out = replay_file(sys.argv[1])
    except SystemExit:
        raise
    except BaseException:  # noqa: BLE001
        traceback.print_exc()
        sys.exit(2)
    sys.exit(0 if out["ok"] else 1)


if __name__ == "__main__":
    main()

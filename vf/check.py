"""Check one property against /repo's working tree.

python -m vf.check <ID> [--tier quick|thorough] [--shards N]

exit 0  property held on everything explored (KNOWN-FINDING lines may be printed)
exit 1  VIOLATION property=<ID> replay=<path>
exit 2  harness problem / inconclusive (never a violation)
"""
import argparse
import collections
import importlib
import json
import os
import shutil
import subprocess
import sys
import tempfile
import time

from . import core

PY = sys.executable


def child_env(extra=None):
    env = dict(os.environ)
    repo = os.environ.get("VF_REPO", "/repo")
    env["PYTHONPATH"] = os.pathsep.join([repo, core.VERIF_ROOT])
    env["PYTHONHASHSEED"] = "0"
    env["PYTHONDONTWRITEBYTECODE"] = "1"
    env.pop("CSVPATH_CONFIG_PATH", None)
    if extra:
        env.update(extra)
    return env


def warm_up(env):
    """one parse in a scratch dir so PLY regenerates its tables once, not 16 times"""
    d = tempfile.mkdtemp(prefix="vfwarm_")
    try:
        code = (
            "import os,sys\n"
            "from vf.sandbox import Sandbox, assert_repo_code\n"
            "sb=Sandbox(tag='warm')\n"
            "assert_repo_code()\n"
            "sb.reset()\n"
            "p=sb.write_csv('w.csv',[['a'],['1']])\n"
            "from csvpath import CsvPath\n"
            "import io,contextlib\n"
            "with contextlib.redirect_stdout(io.StringIO()):\n"
            "    c=CsvPath(); c.parse('$'+p+'[*][yes()]'); c.collect()\n"
            "sb.close()\n"
        )
        r = subprocess.run(
            [PY, "-c", code], env=env, cwd=d, capture_output=True, text=True
        )
        if r.returncode != 0:
            sys.stderr.write("HARNESS: warm-up failed\n" + r.stdout + r.stderr)
            return False
        return True
    finally:
        shutil.rmtree(d, ignore_errors=True)


def run_replay(path, env):
    r = subprocess.run(
        [PY, "-m", "vf.replay", path],
        env=env,
        cwd=core.VERIF_ROOT,
        capture_output=True,
        text=True,
    )
    return r.returncode, r.stdout + r.stderr


def main(argv=None):
    ap = argparse.ArgumentParser()
    ap.add_argument("prop")
    ap.add_argument("--tier", default=os.environ.get("VERIF_TIER") or "quick")
    ap.add_argument("--shards", type=int, default=int(os.environ.get("VF_SHARDS", "16")))
    ap.add_argument("--budget-s", type=float, default=0)
    a = ap.parse_args(argv)
    prop = a.prop.upper()
    tier = a.tier if a.tier in ("quick", "thorough") else "quick"
    try:
        seed = int(os.environ.get("VERIF_SEED", "1"))
    except ValueError:
        seed = 1
    t0 = time.time()
    os.chdir(core.VERIF_ROOT)
    env = child_env()
    mod = importlib.import_module(f"vf.props.{prop.lower()}")

    if not warm_up(env):
        sys.exit(2)

    # -- known findings: still present on this tree? --------------------------
    active = []
    for f in core.known_for(prop):
        rp = os.path.join(core.VERIF_ROOT, f["replay"])
        rc, out = run_replay(rp, env)
        if rc == 1:
            active.append(f["id"])
            print(f"KNOWN-FINDING: property={prop} {f['what']}")
        elif rc == 2:
            sys.stderr.write(f"HARNESS: replay of known finding {f['id']} broke\n{out}\n")
            sys.exit(2)
        else:
            print(f"note: known finding {f['id']} no longer reproduces; exclusion lifted")
    env["VF_ACTIVE_FINDINGS"] = ",".join(active)

    # -- shards -------------------------------------------------------------------
    budget_s = a.budget_s or getattr(mod, "WALL_BUDGET_S", {}).get(tier, 0)
    shards = a.shards
    if hasattr(mod, "SHARDS"):
        shards = min(shards, mod.SHARDS.get(tier, shards))
    outdir = tempfile.mkdtemp(prefix=f"vfout_{prop.lower()}_")
    procs = []
    for i in range(shards):
        out = os.path.join(outdir, f"s{i}.json")
        cmd = [PY, "-m", "vf.worker", prop, "--shard", str(i), "--of", str(shards),
               "--tier", tier, "--seed", str(seed), "--out", out]
        if budget_s:
            cmd += ["--budget-s", str(budget_s)]
        p = subprocess.Popen(cmd, env=env, cwd=core.VERIF_ROOT,
                             stdout=subprocess.PIPE, stderr=subprocess.STDOUT, text=True)
        procs.append((p, out))
    results = []
    harness = []
    for p, out in procs:
        so, _ = p.communicate()
        try:
            with open(out) as f:
                res = json.load(f)
        except Exception:  # noqa: BLE001
            res = {"harness_error": {"traceback": f"worker produced no result; rc={p.returncode}\n{so[-3000:]}"}}
        if res.get("harness_error") or p.returncode != 0:
            harness.append((res.get("harness_error") or {"traceback": so[-3000:]}))
        results.append(res)
    shutil.rmtree(outdir, ignore_errors=True)

    # -- coverage-guided campaign (thorough tier of the properties that declare FUZZ) -----
    fuzz = {}
    fz = getattr(mod, "FUZZ", None)
    if fz and tier == "thorough" and not harness:
        import re
        fdir = tempfile.mkdtemp(prefix=f"vffz_{prop.lower()}_")
        fprocs = []
        for i in range(fz.get("procs", 8)):
            out = os.path.join(fdir, f"f{i}.json")
            cmd = [PY, "-m", "vf.fuzz", prop, "--runs", str(fz.get("runs", 2000)), "--seed", str(seed * 1000 + i + 1), "--out", out]
            fprocs.append((subprocess.Popen(cmd, env=env, cwd=core.VERIF_ROOT, stdout=subprocess.PIPE,
                                            stderr=subprocess.STDOUT, text=True), out))
        fuzz = {"fuzz_processes": len(fprocs), "fuzz_evaluations": 0, "fuzz_features": 0, "fuzz_engine": "atheris/libFuzzer over hypothesis fuzz_one_input"}
        for p_, out in fprocs:
            so, _ = p_.communicate()
            try:
                with open(out) as f:
                    fr = json.load(f)
            except Exception:  # noqa: BLE001
                fr = {}
            if fr.get("skipped"):
                fuzz["fuzz_skipped"] = fr["skipped"]
                continue
            fuzz["fuzz_evaluations"] += fr.get("evaluations", 0)
            m_ = re.findall(r"cov: (\d+) ft: (\d+)", so or "")
            if m_:
                fuzz["fuzz_features"] = max(fuzz["fuzz_features"], int(m_[-1][1]))
            results.append({"evaluations": fr.get("evaluations", 0), "nontrivial": fr.get("nontrivial", []),
                            "undefined": fr.get("undefined", 0),
                            "excluded": ({"(fuzz)": fr.get("excluded", 0)} if fr.get("excluded") else {}),
                            "failures": ([fr["failure"]] if fr.get("failure") and "case" in fr["failure"] and "harness" not in fr["failure"] else []),
                            "samples": ([fr["sample"]] if fr.get("sample") else [])})
            if p_.returncode == 2 or (fr.get("failure") and "harness" in fr["failure"]):
                harness.append({"traceback": (fr.get("failure") or {}).get("harness") or (so or "")[-3000:],
                                "case": (fr.get("failure") or {}).get("case")})
        shutil.rmtree(fdir, ignore_errors=True)

    # -- merge ----------------------------------------------------------------------
    evaluations = sum(r.get("evaluations", 0) for r in results)
    nontrivial = set()
    labels = collections.Counter()
    excluded = collections.Counter()
    samples = []
    undefined = 0
    tolerated = 0
    budget_hit = False
    exhaustive = None
    extra = {}
    failures = []
    for r in results:
        nontrivial.update(r.get("nontrivial", []))
        labels.update(r.get("labels", {}))
        excluded.update(r.get("excluded", {}))
        undefined += r.get("undefined", 0)
        tolerated += r.get("tolerated", 0)
        budget_hit = budget_hit or r.get("budget_hit", False)
        for s in r.get("samples", []):
            if len(samples) < 5:
                samples.append(s)
        failures += r.get("failures", [])
        for k, v in (r.get("extra") or {}).items():
            extra.setdefault(k, v)

    # the enumeration was exhaustive only if every shard finished its share of it
    if all(r.get("exhaustive") for r in results[:shards]) and not budget_hit:
        exhaustive = results[0]["exhaustive"]

    violation_path = None
    unconfirmed = 0
    # (a mismatch confirmed in a fresh process is reported even if another shard broke the harness)
    if failures:
        failures.sort(key=lambda fl: len(core.canon(fl["case"])))
        os.makedirs(os.path.join(core.VERIF_ROOT, "replays", "_new"), exist_ok=True)
        for fl in failures[:3]:
            h = core.case_hash(fl["case"])
            rel = os.path.join("replays", "_new", f"{prop}-{h}.json")
            with open(os.path.join(core.VERIF_ROOT, rel), "w") as f:
                json.dump({"property": prop, "seed": seed, "tier": tier,
                           "case": fl["case"], "detail": fl["detail"]}, f, indent=1, default=str)
            rc, out = run_replay(os.path.join(core.VERIF_ROOT, rel), env)
            if rc == 1:
                violation_path = rel
                break
            unconfirmed += 1
            os.unlink(os.path.join(core.VERIF_ROOT, rel))

    wall = round(time.time() - t0, 2)
    disc_rate = undefined / evaluations if evaluations else 0
    ev = {
        "property_id": prop,
        "tier": tier,
        "seed": seed,
        "level": mod.LEVEL,
        "coverage": {
            "evaluations": evaluations,
            "distinct_nontrivial": len(nontrivial),
            "rule": mod.RULE,
            "samples": samples,
            "classes": dict(sorted(labels.items())),
            "excluded": dict(excluded),
            "undefined_discarded": undefined,
            "tolerated_cells": tolerated,
            "budget_hit": budget_hit,
            "unconfirmed": unconfirmed,
            "shards": shards,
            "active_known_findings": active,
        },
        "assumptions": list(getattr(mod, "ASSUMPTIONS", [])),
        "wall_s": wall,
        "violations": 1 if violation_path else 0,
    }
    if exhaustive:
        ev["coverage"]["exhaustive"] = True
        ev["coverage"]["exhaustive_scope"] = exhaustive
    ev["coverage"].update(extra)
    ev["coverage"].update(fuzz)
    evdir = os.environ.get("VF_EVIDENCE_DIR") or os.path.join(core.VERIF_ROOT, "evidence")
    os.makedirs(evdir, exist_ok=True)
    with open(os.path.join(evdir, f"{prop}.json"), "w") as f:
        json.dump(ev, f, indent=1, default=str)

    print(f"{prop} tier={tier} seed={seed} evaluations={evaluations} "
          f"nontrivial={len(nontrivial)} undefined={undefined} excluded={dict(excluded)} "
          f"wall={wall}s")
    if harness:
        for h in harness[:2]:
            sys.stderr.write("HARNESS ERROR:\n" + str(h.get("traceback"))[-3000:] + "\n")
            if h.get("case") is not None:
                sys.stderr.write("case: " + core.canon(h["case"])[:2000] + "\n")
    if violation_path:
        print(f"VIOLATION property={prop} replay={violation_path}")
        sys.exit(1)
    if harness:
        sys.exit(2)
    if unconfirmed:
        sys.stderr.write(f"INCONCLUSIVE: {unconfirmed} mismatch(es) did not reproduce in a fresh process\n")
        sys.exit(2)
    if evaluations and disc_rate > 0.2:
        sys.stderr.write(f"HARNESS: undefined-discard rate {disc_rate:.2f} > 0.2\n")
        sys.exit(2)
    if len(nontrivial) < 2:
        sys.stderr.write("HARNESS: fewer than 2 non-trivial cases\n")
        sys.exit(2)
    sys.exit(0)


if __name__ == "__main__":
    main()

"""One shard of one property check.  Run as: python -m vf.worker <ID> --shard i --of n
--tier quick|thorough --seed N --out file.json [--budget-s S]

Writes a JSON result; exit status 0 always unless the harness itself broke (2).
"""
import argparse
import collections
import importlib
import json
import os
import sys
import time
import traceback
import warnings

from . import core
from .sandbox import Sandbox, assert_repo_code


class _Stop(BaseException):
    """leave the Hypothesis engine (budget, shrink budget); not an Exception on purpose"""


class _Mismatch(Exception):
    pass


class _Harness(BaseException):
    pass


class ShardState:
    def __init__(self, mod, sb, tier, budget_s):
        self.mod = mod
        self.sb = sb
        self.tier = tier
        self.t0 = time.time()
        self.budget_s = budget_s
        self.evaluations = 0
        self.nontrivial = set()
        self.labels = collections.Counter()
        self.excluded = collections.Counter()
        self.undefined = 0
        self.tolerated = 0
        self.samples = []
        self.failures = []  # (len, case, detail)
        self.first_fail_eval = None
        self.first_fail_time = None
        self.budget_hit = False
        self.harness_error = None
        self.exhaustive = None
        self.extra = {}

    def run(self, case):
        """execute one case; returns outcome; records counters"""
        if self.budget_s and time.time() - self.t0 > self.budget_s:
            self.budget_hit = True
            raise _Stop()
        try:
            self.sb.reset()
            with warnings.catch_warnings():
                out = self.mod.run_case(case, self.sb)
        except (_Stop, KeyboardInterrupt):
            raise
        except BaseException:  # noqa: BLE001
            self.harness_error = {
                "case": case,
                "traceback": traceback.format_exc()[-4000:],
            }
            raise _Harness()
        self.evaluations += 1
        for lb in out["labels"]:
            self.labels[lb] += 1
        if out["undefined"]:
            self.undefined += 1
            return out
        if out["excluded"]:
            self.excluded[out["excluded"]] += 1
            return out
        self.tolerated += out.get("tolerated") or 0
        if out["nontrivial"]:
            h = core.case_hash(case)
            if h not in self.nontrivial:
                self.nontrivial.add(h)
                if len(self.samples) < 3 and out["summary"] is not None:
                    self.samples.append(out["summary"])
        if not out["ok"]:
            size = len(core.canon(case))
            self.failures.append((size, case, out["detail"]))
            self.failures.sort(key=lambda t: t[0])
            del self.failures[3:]
            if self.first_fail_eval is None:
                self.first_fail_eval = self.evaluations
                self.first_fail_time = time.time()
        return out

    def result(self):
        return {
            "evaluations": self.evaluations,
            "nontrivial": sorted(self.nontrivial),
            "labels": dict(self.labels),
            "excluded": dict(self.excluded),
            "undefined": self.undefined,
            "tolerated": self.tolerated,
            "samples": self.samples,
            "failures": [
                {"case": c, "detail": d} for (_, c, d) in self.failures[:1]
            ],
            "budget_hit": self.budget_hit,
            "harness_error": self.harness_error,
            "exhaustive": self.exhaustive,
            "extra": self.extra,
            "wall_s": round(time.time() - self.t0, 2),
        }


def run_replays(st, prop):
    d = os.path.join(core.VERIF_ROOT, "replays", prop)
    if not os.path.isdir(d):
        return
    known = {
        os.path.basename(f.get("replay", "")): f["id"] for f in core.known_for(prop)
    }
    for fn in sorted(os.listdir(d)):
        if not fn.endswith(".json"):
            continue
        if fn in known:
            continue  # the parent replays known findings itself
        with open(os.path.join(d, fn)) as f:
            rp = json.load(f)
        st.labels["replayed"] += 1
        st.run(rp["case"])
        if st.failures:
            return


def run_enumeration(st, shard, of, seed):
    mod = st.mod
    it = mod.enumerate_cases(st.tier, seed)
    n = 0
    for i, case in enumerate(it):
        if i % of != shard:
            continue
        out = st.run(case)
        n += 1
        if not out["ok"]:
            # shrink by the module's own reducer if it has one
            if hasattr(mod, "shrink"):
                best = case
                for cand in mod.shrink(case):
                    o2 = st.run(cand)
                    if not o2["ok"]:
                        best = cand
            return
    if st.exhaustive is None and getattr(mod, "ENUM_EXHAUSTIVE", None):
        st.exhaustive = mod.ENUM_EXHAUSTIVE.get(st.tier)


def run_hypothesis(st, shard, of, seed, prop):
    import hypothesis
    from hypothesis import HealthCheck, Phase, given, settings

    mod = st.mod
    total = mod.budget(st.tier)
    n = max(1, total // of)
    strat = mod.strategy(st.tier)
    shrink_calls = 120 if st.tier == "quick" else 400
    shrink_s = 40 if st.tier == "quick" else 150

    def body(case):
        out = st.run(case)
        if st.first_fail_eval is not None:
            if st.evaluations - st.first_fail_eval > shrink_calls or time.time() - st.first_fail_time > shrink_s:
                raise _Stop()
        if not out["ok"]:
            raise _Mismatch(core.canon(out["detail"])[:500])

    test = given(strat)(body)
    test = hypothesis.seed(core.hash32(seed, prop, shard))(test)
    test = settings(
        max_examples=n,
        database=None,
        deadline=None,
        derandomize=False,
        report_multiple_bugs=False,
        print_blob=False,
        phases=[Phase.generate, Phase.shrink],
        suppress_health_check=list(HealthCheck),
    )(test)
    try:
        test()
    except _Mismatch:
        pass
    except _Stop:
        pass
    except hypothesis.errors.Flaky as e:  # pragma: no cover
        st.extra["flaky"] = str(e)[:500]


def main(argv=None):
    ap = argparse.ArgumentParser()
    ap.add_argument("prop")
    ap.add_argument("--shard", type=int, default=0)
    ap.add_argument("--of", type=int, default=1)
    ap.add_argument("--tier", default="quick")
    ap.add_argument("--seed", type=int, default=1)
    ap.add_argument("--out", required=True)
    ap.add_argument("--budget-s", type=float, default=0)
    a = ap.parse_args(argv)

    sb = Sandbox(tag=f"{a.prop.lower()}s{a.shard}")
    code = 0
    try:
        assert_repo_code()
        mod = importlib.import_module(f"vf.props.{a.prop.lower()}")
        st = ShardState(mod, sb, a.tier, a.budget_s)
        try:
            if hasattr(mod, "setup_worker"):
                mod.setup_worker(sb)
            if a.shard == 0:
                run_replays(st, a.prop)
            if not st.failures and hasattr(mod, "enumerate_cases"):
                run_enumeration(st, a.shard, a.of, a.seed)
            if not st.failures and hasattr(mod, "strategy"):
                run_hypothesis(st, a.shard, a.of, a.seed, a.prop)
        except _Stop:
            pass
        except _Harness:
            code = 2
        res = st.result()
        with open(a.out, "w") as f:
            json.dump(res, f, default=str)
    except SystemExit:
        raise
    except BaseException:  # noqa: BLE001
        traceback.print_exc()
        with open(a.out, "w") as f:
            json.dump(
                {"harness_error": {"traceback": traceback.format_exc()[-4000:]}}, f
            )
        code = 2
    finally:
        sb.close()
    sys.exit(code)


if __name__ == "__main__":
    main()

"""Coverage-guided campaign for one property: atheris (libFuzzer) drives the property's own
Hypothesis strategy through `fuzz_one_input`, so the bytes libFuzzer mutates are decoded into
the same structured cases and judged by the same oracle (`run_case`) as the random search.

python -m vf.fuzz <ID> --runs N --seed S --out result.json

Exit: 0 campaign finished without a mismatch; 3 mismatch (case in result.json); 2 harness problem.
libFuzzer ends the process itself, so the result file is rewritten every 100 executions.
"""
import argparse
import importlib
import json
import os
import sys
import time
import traceback
import warnings

# atheris lives beside the framework (setup.sh installs it into <checkout>/.deps); a snapshot of the committed
# files may be run from another directory, so /verif/.deps is looked at too
for DEPS in (os.path.join(os.path.dirname(os.path.dirname(os.path.abspath(__file__))), ".deps"), "/verif/.deps"):
    if os.path.isdir(DEPS) and DEPS not in sys.path:
        sys.path.insert(0, DEPS)
        break


def main():
    ap = argparse.ArgumentParser()
    ap.add_argument("prop")
    ap.add_argument("--runs", type=int, default=2000)
    ap.add_argument("--seed", type=int, default=1)
    ap.add_argument("--out", required=True)
    a = ap.parse_args()
    try:
        import atheris
    except ImportError:
        with open(a.out, "w") as f:
            json.dump({"skipped": "atheris is not installed (setup.sh installs it from the offline wheelhouse)"}, f)
        sys.exit(0)
    from . import core
    from .sandbox import Sandbox, assert_repo_code

    with atheris.instrument_imports(include=["csvpath"]):
        import csvpath  # noqa: F401
        import csvpath.csvpaths  # noqa: F401
        import csvpath.matching.matcher  # noqa: F401
        import csvpath.matching.util.print_parser  # noqa: F401
        import csvpath.util.file_readers  # noqa: F401
    assert_repo_code()
    from hypothesis import HealthCheck, given, settings

    mod = importlib.import_module(f"vf.props.{a.prop.lower()}")
    sb = Sandbox(tag=f"{a.prop.lower()}fz{a.seed}")
    if hasattr(mod, "setup_worker"):
        mod.setup_worker(sb)
    st = {"evaluations": 0, "nontrivial": set(), "undefined": 0, "excluded": 0, "t0": time.time(), "failure": None,
          "sample": None}

    def flush(final=False):
        with open(a.out, "w") as f:
            json.dump({"evaluations": st["evaluations"], "nontrivial": sorted(st["nontrivial"]),
                       "undefined": st["undefined"], "excluded": st["excluded"], "failure": st["failure"],
                       "sample": st["sample"], "wall_s": round(time.time() - st["t0"], 1), "final": final}, f, default=str)

    @settings(database=None, deadline=None, suppress_health_check=list(HealthCheck))
    @given(mod.strategy("thorough"))
    def target(case):
        try:
            sb.reset()
            with warnings.catch_warnings():
                out = mod.run_case(case, sb)
        except BaseException:  # noqa: BLE001
            st["failure"] = {"harness": traceback.format_exc()[-3000:], "case": case}
            flush(True)
            os._exit(2)
        st["evaluations"] += 1
        if out["undefined"]:
            st["undefined"] += 1
        elif out["excluded"]:
            st["excluded"] += 1
        else:
            if out["nontrivial"]:
                st["nontrivial"].add(core.case_hash(case))
                if st["sample"] is None:
                    st["sample"] = out["summary"]
            if not out["ok"]:
                st["failure"] = {"case": case, "detail": out["detail"]}
                flush(True)
                os._exit(3)
        if st["evaluations"] % 100 == 0:
            flush()

    flush()
    atheris.Setup([sys.argv[0], f"-runs={a.runs}", f"-seed={a.seed}", "-max_len=8192", "-len_control=0", "-print_final_stats=1"],
                  target.hypothesis.fuzz_one_input)
    atheris.Fuzz()


if __name__ == "__main__":
    main()

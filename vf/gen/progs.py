"""Typed csvpath program + CSV table strategies (construction, not rejection).

A table is {"cols": [{"name","type","dense"}...], "records": [[cell...]...]} where record 0
(after optional leading blanks) is the header row, column 0 is a unique id, dense columns
precede sparse ones and short rows only ever drop sparse cells.
"""
from hypothesis import strategies as st

INTS = ["0", "1", "2", "3", "5", "7", "9", "10", "11", "12", "20", "99", "100", "101", "1250", "-1", "-3", "-10"]
DECS = ["0.5", "1.5", "2.25", "10.75", "12.25", "-0.5", "3.0"]
WORDS = ["apple", "Bob", "cat", "dog", "Eve", "fig", "bat", "cab", "a", "ab", "Cat", "zed"]
FLAGS = ["true", "false"]
COLNAMES = ["a", "b2", "first_name", "city", "qty", "x_y", "Order Number", "total", "k9"]
POOL = {"int": INTS, "dec": DECS, "word": WORDS, "flag": FLAGS}


@st.composite
def tables(draw, min_rows=1, max_rows=9, blanks=True, ragged=True, lead_blank=False, extra=True, pad=True, space_cells=True):
    ncols = draw(st.integers(1, 4))
    names = draw(st.lists(st.sampled_from(COLNAMES), min_size=ncols, max_size=ncols, unique=True))
    cols = [{"name": "id", "type": "id", "dense": True}]
    specs = []
    for nm in names:
        t = draw(st.sampled_from(["int", "int", "word", "word", "dec", "flag"]))
        dense = draw(st.booleans()) or draw(st.booleans())
        specs.append({"name": nm, "type": t, "dense": dense})
    specs.sort(key=lambda c: not c["dense"])
    cols += specs
    ndense = sum(1 for c in cols if c["dense"])
    nrows = draw(st.integers(min_rows, max_rows))
    records = []
    if lead_blank and draw(st.integers(0, 5)) == 0:
        records.append([])
    records.append([c["name"] for c in cols])
    rid = 0
    for _ in range(nrows):
        if blanks and draw(st.integers(0, 7)) == 0:
            records.append([])
        row = [f"r{rid}"]
        rid += 1
        for c in cols[1:]:
            pool = POOL[c["type"]]
            v = draw(st.sampled_from(pool))
            if not c["dense"]:
                k = draw(st.integers(0, 5))
                if k == 0:
                    v = ""
                elif k == 1 and space_cells:
                    v = " "
            if pad and draw(st.integers(0, 11)) == 0 and v != "":
                v = draw(st.sampled_from([" " + v, v + " ", " " + v + " "]))
            row.append(v)
        if ragged and len(cols) > ndense and draw(st.integers(0, 4)) == 0:
            keep = draw(st.integers(ndense, len(cols) - 1))
            row = row[:keep]
        elif extra and draw(st.integers(0, 9)) == 0:
            row.append(draw(st.sampled_from(WORDS + INTS)))
        records.append(row)
    if blanks and draw(st.integers(0, 5)) == 0:
        records.append([])
    return {"cols": cols, "records": records}


@st.composite
def gap_scans(draw, table):
    """'+'-lists of single lines / short ranges with gaps between them (data lines only)"""
    n = len(table["records"])
    lo = hdr_pos(table) + 1
    pts = sorted(draw(st.lists(st.integers(lo, n + 1), min_size=2, max_size=5, unique=True)))
    terms = []
    for p in pts:
        if draw(st.integers(0, 3)) == 0:
            terms.append(f"{p}-{p + 1}" if (p + 1) not in pts else str(p))
        else:
            terms.append(str(p))
    # drop terms that would overlap the previous one
    out, last = [], -1
    for t in terms:
        a = int(t.split("-")[0])
        b = int(t.split("-")[-1])
        if a <= last:
            continue
        out.append(t)
        last = b
    out = out[:4]
    if len(out) >= 2 and draw(st.sampled_from([False, False, True])):
        # '+' is a union: the order the operands are written in does not matter
        out = list(draw(st.permutations(out)))
    return "+".join(out)


def text_safe(table, draw):
    """variant of a table for programs that may scan the header row: every column is
    presented to the program generator as a word column (so no numeric function ever sees
    header text), and the header row may recur as a data record"""
    import copy
    t = copy.deepcopy(table)
    for c in t["cols"]:
        if c["type"] != "id":
            c["type"] = "word"
    hp = hdr_pos(t)
    if draw(st.integers(0, 2)) != 1 and len(t["records"]) > hp + 1:
        at = draw(st.integers(hp + 1, len(t["records"])))
        t["records"].insert(at, list(t["records"][hp]))
    return t


def hdr_pos(table):
    for i, r in enumerate(table["records"]):
        if r:
            return i
    return None


@st.composite
def scans(draw, table, from_data=True, allow_lists=True):
    """scan part (text) over the table; from_data: never include the header row"""
    n = len(table["records"])
    lo = (hdr_pos(table) + 1) if from_data else 0
    hi = n + 1
    kind = draw(st.sampled_from(["all", "all", "nstar", "range", "list"] if allow_lists else ["all", "all", "nstar", "range"]))
    if kind == "all":
        return "*" if lo == 0 else f"{lo}*"
    if kind == "nstar":
        return f"{draw(st.integers(lo, max(lo, n - 1)))}*"
    if kind == "range":
        a = draw(st.integers(lo, hi))
        b = draw(st.integers(lo, hi))
        return f"{a}-{b}"
    pts = sorted(draw(st.lists(st.integers(lo, hi), min_size=1, max_size=6, unique=True)))
    terms, i = [], 0
    while i < len(pts):
        if i + 1 < len(pts) and draw(st.booleans()):
            terms.append(f"{pts[i]}-{pts[i+1]}")
            i += 2
        else:
            terms.append(str(pts[i]))
            i += 1
    return "+".join(terms[:4])


class Env:
    """what a program under construction may refer to"""

    def __init__(self, table):
        self.cols = table["cols"]
        self.vars = {}     # name -> "N" | "S" | "B" | "A"
        self.stacks = set()
        self.names = 0
        self.ignore_vars = []

    def col(self, types, dense=None):
        out = []
        for i, c in enumerate(self.cols):
            if c["type"] in types and (dense is None or c["dense"] == dense):
                out.append((i, c))
        return out

    def fresh(self, prefix):
        self.names += 1
        return f"{prefix}{self.names}"


def mk_eq(l, r, typ):
    """grammar: the left of '==' is a header, variable or function, never a term; the
    right is never an equality"""
    if l[0] == "t" and r[0] != "t":
        l, r = r, l
    if l[0] == "t":
        l = ["f", "lower", [], [l]] if typ == "S" else ["f", "int", [], [l]]
    return ["==", l, r]


def _hdr(draw, i, c):
    if draw(st.integers(0, 3)) == 0:
        return ["hi", i]
    return ["h", c["name"]]


def expr_n(draw, env, depth, intonly=False):
    """number-valued expression (defined on every data line)"""
    choices = ["lit"]
    icols = env.col(["int"], dense=True)
    dcols = env.col(["dec"], dense=True)
    nvars = [k for k, t in env.vars.items() if t == "I" or (t == "N" and not intonly)]
    if icols:
        choices += ["icol", "icol"]
    if dcols and not intonly:
        choices += ["dcol"]
    if nvars:
        choices += ["var"]
    if depth > 0:
        choices += ["arith", "arith", "counter"] if not intonly else ["counter", "int"]
        if not intonly:
            choices += ["length", "int"]
    k = draw(st.sampled_from(choices))
    if k == "lit":
        return ["t", draw(st.sampled_from([0, 1, 2, 3, 5, 10, 11, 100, -1, -3]))]
    if k == "icol":
        return _hdr(draw, *draw(st.sampled_from(icols)))
    if k == "dcol":
        return _hdr(draw, *draw(st.sampled_from(dcols)))
    if k == "var":
        return ["v", draw(st.sampled_from(nvars))]
    if k == "counter":
        return ["f", draw(st.sampled_from(["count_lines", "count_lines", "count_scans", "line_number", "total_lines",
                                            "count_headers", "count_headers_in_line", "count"])), [], []]
    if k == "length":
        return ["f", "length", [], [expr_s(draw, env, depth - 1)]]
    if k == "int":
        return ["f", "int", [], [expr_n(draw, env, depth - 1, intonly=True)]]
    fn = draw(st.sampled_from(["add", "add", "subtract", "multiply", "divide", "mod", "round", "float", "minus"]))
    if fn == "add":
        n = draw(st.integers(2, 3))
        return ["f", "add", [], [expr_n(draw, env, depth - 1) for _ in range(n)]]
    if fn in ("subtract", "multiply"):
        return ["f", fn, [], [expr_n(draw, env, depth - 1), expr_n(draw, env, depth - 1)]]
    if fn == "divide":
        return ["f", "divide", [], [expr_n(draw, env, depth - 1), expr_n(draw, env, depth - 1)]]
    if fn == "mod":
        return ["f", "mod", [], [expr_n(draw, env, depth - 1), ["t", draw(st.sampled_from([2, 3, 5, 7]))]]]
    if fn == "round":
        args = [expr_n(draw, env, depth - 1)]
        if draw(st.booleans()):
            args.append(["t", draw(st.integers(0, 2))])
        return ["f", "round", [], args]
    if fn == "float":
        return ["f", "float", [], [expr_n(draw, env, depth - 1)]]
    return ["f", "minus", [], [["t", draw(st.sampled_from([1, 2, 5]))]]]


def expr_s(draw, env, depth):
    choices = ["lit"]
    wcols = env.col(["word", "id"], dense=True)
    svars = [k for k, t in env.vars.items() if t == "S"]
    if wcols:
        choices += ["col", "col"]
    if svars:
        choices += ["var"]
    if depth > 0:
        choices += ["fn", "fn"]
    k = draw(st.sampled_from(choices))
    if k == "lit":
        return ["t", draw(st.sampled_from(["apple", "Bob", "cat", "a", "ab", "r1", "zz", "C"]))]
    if k == "col":
        return _hdr(draw, *draw(st.sampled_from(wcols)))
    if k == "var":
        return ["v", draw(st.sampled_from(svars))]
    fn = draw(st.sampled_from(["concat", "lower", "upper", "strip", "substring"]))
    if fn == "concat":
        return ["f", "concat", [], [expr_s(draw, env, depth - 1), expr_s(draw, env, depth - 1)]]
    if fn == "substring":
        return ["f", "substring", [], [expr_s(draw, env, depth - 1), ["t", draw(st.integers(0, 4))]]]
    a = expr_s(draw, env, depth - 1)
    if fn == "strip" and a[0] == "t":
        fn = "lower"  # strip() does not take a term
    return ["f", fn, [], [a]]


def expr_b(draw, env, depth, pure=True):
    """match decider"""
    choices = ["hdr", "cmp", "cmp", "eq", "empty", "in"]
    if env.vars:
        choices.append("var")
    if depth > 0:
        choices += ["not", "andor", "between", "in", "allmissing", "equals", "strfn", "firsts", "yesno"]
    k = draw(st.sampled_from(choices))
    if k == "yesno":
        return ["f", draw(st.sampled_from(["yes", "no", "true", "false"])), [], []]
    if k == "hdr":
        i, c = draw(st.sampled_from(list(enumerate(env.cols))))
        return _hdr(draw, i, c)
    if k == "var":
        return ["v", draw(st.sampled_from(sorted(env.vars)))]
    if k == "not":
        return ["f", "not", [], [expr_b(draw, env, depth - 1)]]
    if k == "andor":
        fn = draw(st.sampled_from(["and", "or"]))
        n = draw(st.integers(2, 3))
        return ["f", fn, [], [expr_b(draw, env, depth - 1) for _ in range(n)]]
    if k == "cmp":
        fn = draw(st.sampled_from(["above", "gt", "after", "gte", "below", "lt", "before", "lte"]))
        if draw(st.integers(0, 3)) == 0 and env.col(["word", "id"], dense=True):
            return ["f", fn, [], [expr_s(draw, env, 0), expr_s(draw, env, 0)]]
        sp = env.col(["int", "dec"], dense=False)
        if sp and draw(st.integers(0, 3)) == 0:
            # a sparse numeric column against a number: None compares false
            a = _hdr(draw, *draw(st.sampled_from(sp)))
            b = expr_n(draw, env, 0)
            if draw(st.booleans()):
                a, b = b, a
            return ["f", fn, [], [a, b]]
        return ["f", fn, [], [expr_n(draw, env, max(0, depth - 1)), expr_n(draw, env, max(0, depth - 1))]]
    if k == "between":
        fn = draw(st.sampled_from(["between", "inside", "from_to", "range", "beyond", "outside"]))
        return ["f", fn, [], [expr_n(draw, env, depth - 1), expr_n(draw, env, 0), expr_n(draw, env, 0)]]
    if k == "eq":
        kind = draw(st.sampled_from(["ii", "ss", "sparse", "ff"]))
        icols = env.col(["int"], dense=True)
        if kind == "ii" and icols:
            return mk_eq(_hdr(draw, *draw(st.sampled_from(icols))), ["t", draw(st.sampled_from([0, 1, 2, 3, 5, 10, 100]))], "N")
        if kind == "ff" and depth > 0:
            return ["==", ["f", "add", [], [expr_n(draw, env, 0), expr_n(draw, env, 0)]],
                    ["f", "float", [], [expr_n(draw, env, 0)]]]
        if kind == "sparse":
            sp = env.col(["word", "flag"], dense=False)
            if sp:
                i, c = draw(st.sampled_from(sp))
                return mk_eq(_hdr(draw, i, c), ["t", draw(st.sampled_from(POOL[c["type"]]))], "S")
        return mk_eq(expr_s(draw, env, max(0, depth - 1)), expr_s(draw, env, 0), "S")
    if k == "empty":
        fn = draw(st.sampled_from(["empty", "exists"]))
        i, c = draw(st.sampled_from(list(enumerate(env.cols))))
        return ["f", fn, [], [_hdr(draw, i, c)]]
    if k == "allmissing":
        fn = draw(st.sampled_from(["all", "missing"]))
        n = draw(st.sampled_from([0, 2, 2, 3]))   # 0: the whole row against the header row
        return ["f", fn, [], [_hdr(draw, *draw(st.sampled_from(list(enumerate(env.cols))))) for _ in range(n)]]
    if k == "in" and env.col(["int"], dense=True) and draw(st.booleans()):
        # numeric cells against bare numeric terms: a term is treated as a '|'-delimited string of values
        a = _hdr(draw, *draw(st.sampled_from(env.col(["int"], dense=True))))
        terms = [["t", draw(st.sampled_from([0, 1, 2, 3, 5, 7, 10, 11, 12, 100, -1]))] for _ in range(draw(st.integers(1, 3)))]
        return ["f", "in", [], [a] + terms]
    if k == "in":
        a = expr_s(draw, env, 0)
        if draw(st.booleans()):
            lits = draw(st.lists(st.sampled_from(WORDS + ["r1", "r2", "r3"]), min_size=1, max_size=4))
            return ["f", "in", [], [a, ["t", "|".join(lits)]]]
        return ["f", "in", [], [a] + [expr_s(draw, env, 0) for _ in range(draw(st.integers(1, 3)))]]
    if k == "equals":
        fn = draw(st.sampled_from(["equals", "eq"]))
        if draw(st.booleans()):
            return ["f", fn, [], [expr_n(draw, env, depth - 1), expr_n(draw, env, 0)]]
        return ["f", fn, [], [expr_s(draw, env, depth - 1), expr_s(draw, env, 0)]]
    if k == "strfn" and draw(st.integers(0, 2)) == 1:
        fn = draw(st.sampled_from(["regex", "exact"]))
        rx = ["rx", draw(st.sampled_from(["^a", "b+", "[A-Z]", "a.+e$", "^[a-z]+$", "o|a", "r[0-9]", "^(ca|do)", "p{2}"]))]
        v = expr_s(draw, env, depth - 1)
        return ["f", fn, [], [rx, v] if draw(st.booleans()) else [v, rx]]
    if k == "strfn":
        fn = draw(st.sampled_from(["starts_with", "min_length", "max_length", "too_long", "too_short"]))
        if fn == "starts_with":
            return ["f", fn, [], [expr_s(draw, env, depth - 1), ["t", draw(st.sampled_from(["a", "b", "c", "B", "r", "ap"]))]]]
        return ["f", fn, [], [expr_s(draw, env, depth - 1), ["t", draw(st.integers(0, 6))]]]
    if k == "firsts":
        return ["f", draw(st.sampled_from(["firstscan", "firstline", "after_blank", "after_blank"])), [], []]
    raise AssertionError(k)


def value_expr(draw, env, depth):
    """-> (expr, type)"""
    t = draw(st.sampled_from(["N", "N", "S", "S", "B", "sparse"] + (["stack", "stack"] if env.stacks else [])
                             + (["track"] if getattr(env, "tracks", None) else [])))
    if t == "track":
        nm, key = draw(st.sampled_from(sorted(env.tracks)))
        return ["vt", nm, key], "A"
    if t == "sparse" and draw(st.integers(0, 2)) == 1:
        return ["f", "end", [], [] if draw(st.booleans()) else [["t", draw(st.integers(0, 2))]]], "A"
    if t == "stack":
        nm = draw(st.sampled_from(sorted(env.stacks)))
        fn = draw(st.sampled_from(["pop", "peek", "peek_size", "size"]))
        if fn == "peek":
            return ["f", "peek", [], [["t", nm], ["t", draw(st.integers(0, 3))]]], "A"
        if fn == "pop":
            return ["f", "pop", [], [["t", nm]]], "A"
        return ["f", fn, [], [["t", nm]]], "I"
    if t == "N":
        e = expr_n(draw, env, depth)
        return e, "N"
    if t == "S":
        return expr_s(draw, env, depth), "S"
    if t == "sparse":
        sp = env.col(["int", "dec", "word", "flag"], dense=False)
        if sp:
            return _hdr(draw, *draw(st.sampled_from(sp))), "A"
        return expr_s(draw, env, depth), "S"
    e = expr_b(draw, env, max(0, depth - 1))
    if e[0] == "==":
        # grammar: the right of an assignment cannot be a bare equality
        e = ["f", "and", [], [e, ["f", "yes", [], []]]]
    return e, "B"


def assignment(draw, env, depth, quals_ok=True, allow_track=True):
    if allow_track and draw(st.integers(0, 5)) == 3:
        # tracking assignment '@d.key = value' (plain, no qualifiers)
        name = draw(st.sampled_from(["d1", "d2"]))
        key = draw(st.sampled_from(["k", "m", "total"]))
        rhs, typ = value_expr(draw, env, depth)
        env.tracks = getattr(env, "tracks", set()) | {(name, key)}
        tq = []
        if quals_ok and getattr(env, "and_mode", True) and draw(st.sampled_from([False, False, True])):
            tq = [draw(st.sampled_from(["latch", "onchange", "notnone", "nocontrib"]))]
        return ["=", name, tq, key, rhs]
    name = draw(st.sampled_from(["x", "y", "z", "w", "n1", "s1"]))
    prev = env.vars.get(name)
    rhs, typ = value_expr(draw, env, depth)
    if getattr(env, "and_mode", True) and draw(st.integers(0, 7)) == 5:
        # '@v = count.name(#h)': the running count of the value seen on this line (docs/functions/count.md),
        # assigned on every line - unlike the bare match counter count()
        wcols = env.col(["word", "flag", "int", "id"], dense=True)
        if wcols:
            i, c = draw(st.sampled_from(wcols))
            rhs, typ = ["f", "count", [env.fresh("cn")], [["h", c["name"]]]], "N"
    if prev is not None and prev != typ:
        # keep variables mono-typed so later reads stay well-typed
        name = env.fresh("v")
    quals = []
    if quals_ok and getattr(env, "and_mode", True) and draw(st.integers(0, 3)) == 0:
        cand = ["latch", "onchange", "notnone", "nocontrib", "asbool"]
        if typ == "N":
            cand += ["increase", "decrease"]
        quals = draw(st.lists(st.sampled_from(cand), min_size=1, max_size=2, unique=True))
        if "increase" in quals and "decrease" in quals:
            quals.remove("decrease")
    if rhs[0] == "f" and rhs[1] == "count" and not rhs[3]:
        # documented form: '@t.onmatch = count()'
        if not getattr(env, "and_mode", True) or not quals_ok:
            rhs = ["f", "count_lines", [], []]
        elif "onmatch" not in quals:
            quals = ["onmatch"]
    env.vars[name] = "A" if (typ == "B" or quals) else typ
    if typ == "N" and not quals:
        env.vars[name] = "N"
    return ["=", name, quals, None, rhs]


def side_effect(draw, env, depth, bare=True):
    k = draw(st.sampled_from(["push", "push", "tally", "counter", "sum", "subtotal", "track", "countx"]))
    if k == "push":
        nm = draw(st.sampled_from(["st1", "st2"]))
        env.stacks.add(nm)
        e, _ = value_expr(draw, env, depth)
        q = draw(st.sampled_from([[], [], ["distinct"]]))
        fn = "push_distinct" if (not q and draw(st.integers(0, 5)) == 0) else "push"
        return ["f", fn, q, [["t", nm], e]]
    if k == "tally":
        cols = [(i, c) for i, c in enumerate(env.cols)]
        n = draw(st.integers(1, min(3, len(cols))))
        chosen = draw(st.lists(st.sampled_from(cols), min_size=n, max_size=n, unique_by=lambda t: t[0]))
        nm = env.fresh("tl")
        return ["f", "tally", [nm], [["h", c["name"]] for _, c in chosen]]
    if k == "counter":
        nm = env.fresh("ct")
        env.vars[nm] = "I"
        args = [] if draw(st.booleans()) else [["t", draw(st.integers(1, 3))]]
        return ["f", "counter", [nm], args]
    if k == "sum":
        nm = env.fresh("sm")
        return ["f", "sum", [nm], [expr_n(draw, env, 0)]]
    if k == "subtotal":
        wcols = env.col(["word", "flag", "int"], dense=True)
        if not wcols:
            return side_effect_push(draw, env, depth)
        nm = env.fresh("sb")
        i, c = draw(st.sampled_from(wcols))
        ncols = env.col(["int", "dec"], dense=True)
        if not ncols:
            return side_effect_push(draw, env, depth)
        j, d = draw(st.sampled_from(ncols))
        return ["f", "subtotal", [nm], [["h", c["name"]], ["h", d["name"]]]]
    if k == "track":
        wcols = env.col(["word", "flag", "int", "id"], dense=True)
        nm = env.fresh("tk")
        i, c = draw(st.sampled_from(wcols))
        e, _ = value_expr(draw, env, 0)
        return ["f", "track", [nm], [["h", c["name"]], e]]
    if k == "countx":
        nm = env.fresh("cn")
        if draw(st.booleans()):
            # counts of True and of False: later components may read '@<name>.True' / '@<name>.False'
            env.tracks = getattr(env, "tracks", set()) | {(nm, "True"), (nm, "False")}
            return ["f", "count", [nm], [expr_b(draw, env, 0)]]
        wcols = env.col(["word", "flag", "int", "id"], dense=True)
        i, c = draw(st.sampled_from(wcols))
        return ["f", "count", [nm], [["h", c["name"]]]]
    raise AssertionError(k)


def side_effect_push(draw, env, depth):
    nm = "st1"
    env.stacks.add(nm)
    e, _ = value_expr(draw, env, depth)
    return ["f", "push", [], [["t", nm], e]]


def action(draw, env, depth):
    k = draw(st.sampled_from(["assign", "assign", "push", "counter"]))
    if k == "assign":
        return assignment(draw, env, depth, quals_ok=False)
    if k == "push":
        return side_effect_push(draw, env, depth)
    nm = env.fresh("ct")
    return ["f", "counter", [nm], []]


def component(draw, env, depth, kinds):
    k = draw(st.sampled_from(kinds))
    if k == "b":
        return expr_b(draw, env, depth)
    if k == "assign":
        return assignment(draw, env, depth)
    if k == "when":
        l = expr_b(draw, env, max(0, depth - 1))
        return ["->", l, action(draw, env, max(0, depth - 1))]
    if k == "se":
        return side_effect(draw, env, max(0, depth - 1))
    if k == "last":
        q = draw(st.sampled_from([[], [], ["nocontrib"]]))
        return ["->", ["f", "last", q, []], action(draw, env, 0)]
    if k == "print":
        chunks = [["text", draw(st.sampled_from(["row ", "at ", "x: ", "line="]))]]
        for _ in range(draw(st.integers(0, 3))):
            r = draw(st.sampled_from(["ln", "cs", "var", "hdr", "txt"]))
            if r == "ln":
                chunks.append(["ref", "csvpath", "line_number"])
            elif r == "cs":
                chunks.append(["ref", "csvpath", "count_scans"])
            elif r == "var" and [v for v, t in env.vars.items() if t in ("N", "S", "I")]:
                chunks.append(["ref", "var", draw(st.sampled_from(sorted(v for v, t in env.vars.items() if t in ("N", "S", "I"))))])
            elif r == "hdr":
                chunks.append(["ref", "hname", "id"])
            chunks.append(["text", draw(st.sampled_from([" | ", "; ", " - ", ", and "]))])
        q = draw(st.sampled_from([[], [], ["onmatch"], ["once"]]))
        if not getattr(env, "and_mode", True):
            q = []
        return ["f", "print", q, [["pt", chunks]]]
    if k == "every":
        nm = env.fresh("ev")
        env.ignore_vars.append(nm)
        wcols = env.col(["word", "flag", "int", "id"], dense=True)
        i, c = draw(st.sampled_from(wcols))
        return ["f", "every", [nm], [["h", c["name"]], ["t", draw(st.integers(1, 3))]]]
    if k == "first":
        nm = env.fresh("fr")
        wcols = env.col(["word", "flag", "int"], dense=True) or env.col(["id"], dense=True)
        n = draw(st.integers(1, min(2, len(wcols))))
        chosen = draw(st.lists(st.sampled_from(wcols), min_size=n, max_size=n, unique_by=lambda t: t[0]))
        return ["f", "first", [nm], [["h", c["name"]] for _, c in chosen]]
    raise AssertionError(k)


@st.composite
def programs(draw, table, kinds=("b", "b", "b", "assign", "assign", "when", "se"), max_comps=6,
             depth=3, or_mode=True):
    env = Env(table)
    mode = "OR" if (or_mode and draw(st.integers(0, 4)) == 0) else "AND"
    env.and_mode = mode == "AND"
    n = draw(st.integers(1, max_comps))
    kinds = list(kinds)
    if mode == "OR":
        kinds = [k for k in kinds if k in ("b", "assign", "when", "every", "first", "last")] or ["b"]
        # (bare side effects and print are AND-mode only: their OR-mode vote is not documented)
    comps = [component(draw, env, draw(st.integers(0, depth)), kinds) for _ in range(n)]
    lasts = [c for c in comps if c[0] == "->" and c[1][0] == "f" and c[1][1] == "last"]
    if lasts:
        # at most one 'last() ->' component, and it comes last (quantifier of C01/C13)
        comps = [c for c in comps if c not in lasts] + [lasts[0]]
    return {"comps": comps, "mode": mode, "ignore_vars": env.ignore_vars}


def functions_used(n, out=None):
    out = out if out is not None else set()
    if isinstance(n, list):
        if n and n[0] == "f":
            out.add(n[1])
        if n and n[0] in ("==", "=", "->"):
            out.add(n[0])
        for x in n:
            functions_used(x, out)
    elif isinstance(n, dict):
        functions_used(n.get("comps"), out)
    return out

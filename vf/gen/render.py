"""AST -> csvpath text.  The only place that knows csvpath's concrete syntax."""


def term(v):
    if isinstance(v, bool):
        raise ValueError("no boolean literals")
    if isinstance(v, (int, float)):
        return repr(v)
    return '"' + v + '"'


def header_ref(name):
    if any(not (c.isalnum() or c in "_") for c in name):
        return f'#"{name}"'
    return f"#{name}"


def print_template(chunks):
    out = []
    for ch in chunks:
        if ch[0] == "text":
            out.append(ch[1])
        else:
            out.append(ref_text(ch))
    return "".join(out)


def ref_text(ch):
    kind = ch[1]
    if kind == "var":
        return f"$.variables.{ch[2]}"
    if kind == "vartrack":
        return f"$.variables.{ch[2]}.{ch[3]}"
    if kind == "stackidx":
        return f"$.variables.{ch[2]}.{ch[3]}"
    if kind == "stacklen":
        return f"$.variables.{ch[2]}.length"
    if kind == "hname":
        return f"$.headers.{ch[2]}"
    if kind == "hidx":
        return f"$.headers.{ch[2]}"
    if kind == "meta":
        return f"$.metadata.{ch[2]}"
    if kind == "csvpath":
        return f"$.csvpath.{ch[2]}"
    raise ValueError(ch)


def node(n, ws=None):
    """ws: optional callable returning whitespace for a layout slot"""
    w = ws or (lambda: "")
    k = n[0]
    if k == "t":
        return term(n[1])
    if k == "pt":
        return '"' + print_template(n[1]) + '"'
    if k == "rx":
        return "/" + n[1] + "/"
    if k == "h":
        return header_ref(n[1])
    if k == "hi":
        return f"#{n[1]}"
    if k == "v":
        return f"@{n[1]}"
    if k == "vt":
        return f"@{n[1]}.{n[2]}"
    if k == "f":
        _, name, quals, args = n
        q = "".join("." + x for x in quals)
        inner = ("," + w()).join(w() + node(a, ws) + w() for a in args)
        return f"{name}{q}({inner})"
    if k == "==":
        return f"{node(n[1], ws)}{w()} =={w()} {node(n[2], ws)}"
    if k == "=":
        _, name, quals, track, rhs = n
        q = "".join("." + x for x in quals)
        t = f".{track}" if track is not None else ""
        return f"@{name}{t}{q}{w()} ={w()} {node(rhs, ws)}"
    if k == "->":
        return f"{node(n[1], ws)}{w()} ->{w()} {node(n[2], ws)}"
    raise ValueError(f"cannot render {n!r}")


def program(prog, filename, scan, ws=None, sep=None, comment=None):
    """prog: {"comps": [...], "mode": ...}; returns full csvpath text"""
    sep = sep or (lambda: " ")
    parts = [node(c, ws) for c in prog["comps"]]
    body = ""
    for i, p in enumerate(parts):
        body += (sep() if i else "") + p
    meta = []
    if prog.get("mode") == "OR":
        meta.append("logic-mode: OR")
    for m in prog.get("modes", []):
        meta.append(m)
    if comment is not None:
        head = comment
    else:
        head = ("~ " + " ".join(meta) + " ~ ") if meta else ""
    return f"{head}${filename}[{scan}][ {body} ]"

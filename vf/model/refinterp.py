"""Reference interpreter for the modelled csvpath fragment (DESIGN.md appendix A).

Written from README.md and docs/*.md.  Imports nothing from csvpath and never parses
csvpath text: it evaluates the generator's AST directly.

AST (JSON-able lists):
  ["h", name]                 header by name        ["hi", index]   header by index
  ["v", name]                 variable              ["vt", name, key]  tracking value
  ["t", value]                term (str | int | float)
  ["f", name, [quals], [args]]        function
  ["==", l, r]   ["=", var, [quals], track|None, rhs]   ["->", l, r]

A program is {"comps": [node...], "mode": "AND"|"OR"}.
"""
import math
import re


class Undefined(Exception):
    """the documentation does not determine the outcome (case is discarded)"""


class _Stop(Exception):
    pass


class ModelError(Exception):
    """evaluating the component raises in the real code (argument error); only used
    when the interpreter is told the error policy (C04)"""


NEUTRAL = "neutral"

ABOVE = {"above": ">", "gt": ">", "after": ">", "gte": ">=",
         "below": "<", "lt": "<", "before": "<", "lte": "<="}
BETWEEN = {"between": "in", "inside": "in", "from_to": "incl", "range": "incl",
           "beyond": "out", "outside": "out"}


def S(v):
    return str(v).strip()


def is_number(v):
    return isinstance(v, (int, float)) and not isinstance(v, bool)


def num(v):
    """the number a value denotes, or None"""
    if isinstance(v, bool):
        return None
    if isinstance(v, (int, float)):
        return v
    if isinstance(v, str):
        s = v.strip()
        if re.fullmatch(r"-?\d+", s):
            return int(s)
        if re.fullmatch(r"-?\d+\.\d+", s):
            return float(s)
    return None


def is_empty(v):
    if v is None:
        return True
    if isinstance(v, str):
        return v.strip() == ""
    if isinstance(v, (list, tuple)):
        return len(v) == 0 or all(is_empty(x) for x in v)
    if isinstance(v, dict):
        return len(v) == 0
    return False


class Result:
    def __init__(self):
        self.returned = []        # positions of returned lines
        self.variables = {}
        self.scan_count = 0
        self.match_count = 0
        self.is_valid = True
        self.printouts = []
        self.lines = []           # per scanned line trace
        self.advanced = False
        self.fired = []           # (pos, comp index, what) control events
        self.flags = set()        # trigger flags for known findings
        self.error_lines = []
        self.undefined = None


class Interp:
    def __init__(self, prog, records, scanset, headers_pos=None):
        """records: list of list[str] ([] = blank); scanset: set of positions denoted
        by the scan part (before intersecting with non-blank)."""
        self.comps = prog["comps"]
        self.AND = prog.get("mode", "AND") != "OR"
        self.records = records
        self.scanset = set(scanset)
        self.res = Result()
        self.vars = self.res.variables
        nonblank = [i for i, r in enumerate(records) if r]
        self.hdr_pos = nonblank[0] if nonblank else None
        self.headers = [h.strip() for h in records[self.hdr_pos]] if nonblank else []
        self.total_data = len(nonblank)
        self.has_blank = len(nonblank) != len(records)
        self.valid_at = []
        self.reading_onmatch_written = set()
        self.error_policy = None   # None: errors are outside the model (UNDEFINED)

    # ------------------------------------------------------------------ run
    def run(self):
        res = self.res
        n = len(self.records)
        scan_positions = sorted(p for p in self.scanset if p < n)
        last_scan = max(self.scanset) if self.scanset else None
        if self._has_last() and last_scan is not None and last_scan < n - 1 and not self.records[last_scan]:
            raise Undefined("scan ends on an interior blank record with last() present")
        if self._has_last() and n and not self.records[n - 1] and (n - 1) not in self.scanset and last_scan is not None and last_scan > n - 1:
            raise Undefined("file ends in a blank record the scan does not denote")
        self.data_count = 0
        self.advance = 0
        self.stopped = False
        self.last_fired = False
        self.frozen = False
        for pos, rec in enumerate(self.records):
            self.pos = pos
            self.rec = rec
            is_last_record = pos == n - 1
            if not rec:
                if is_last_record and self._has_last():
                    # the file ends in a blank line: last() still fires, no line returned
                    self._blank_last_line()
                continue
            self.data_count += 1
            if pos not in self.scanset:
                continue
            res.scan_count += 1
            self.is_last_scan = (pos == last_scan) or is_last_record
            if self.advance > 0:
                self.advance -= 1
                res.lines.append({"pos": pos, "advanced": True})
                res.advanced = True
                if self.is_last_scan_end(pos, last_scan):
                    break
                continue
            matched = self._line()
            if matched:
                res.match_count += 1
                res.returned.append(pos)
            if self.stopped:
                break
            if self.is_last_scan_end(pos, last_scan):
                break
        return res

    def is_last_scan_end(self, pos, last_scan):
        return last_scan is not None and pos >= last_scan

    def _has_last(self):
        def walk(n):
            if isinstance(n, list):
                if n and n[0] == "f" and n[1] == "last":
                    return True
                return any(walk(x) for x in n)
            return False
        return walk(self.comps)

    def _blank_last_line(self):
        # which situations are fixed by the statement: the scan reaches the end of the
        # file ('*' or 'N*'); otherwise undefined
        n = len(self.records)
        if (n - 1) not in self.scanset:
            return
        if self.stopped:
            return
        self.cache = {}
        self.frozen_blank = True
        for c in self.comps:
            if c[0] == "->" and c[1][0] == "f" and c[1][1] == "last":
                if self.last_fired:
                    continue
                self.last_fired = True
                self.is_last_scan = True
                self.match_so_far = True
                self._do_action(c[2])
            elif self._contains_last(c):
                raise Undefined("last() other than 'last() -> action' on a blank final line")

    def _contains_last(self, n):
        if isinstance(n, list):
            if n and n[0] == "f" and n[1] == "last":
                return True
            return any(self._contains_last(x) for x in n)
        return False

    # ----------------------------------------------------------------- line
    def _line(self):
        res = self.res
        self.cache = {}
        votes = []
        self.skipped = False
        trace = {"pos": self.pos, "votes": votes}
        res.lines.append(trace)
        self.count_value = res.match_count + 1
        # onmatch needs "the rest of the line matches": computed lazily by a pure pre-pass
        self.rest_cache = {}
        stop_at = None
        line_errors = 0
        for i, c in enumerate(self.comps):
            self.ci = i
            try:
                v = self._component(c)
            except ModelError:
                v = False
                line_errors += 1
                self.res.error_lines.append(self.pos)
            votes.append(v)
            if self.stopped:
                stop_at = i
                break
            if self.skipped:
                break
        trace["vars"] = None
        if line_errors:
            trace["errors"] = line_errors
            if "fail" in self.error_policy:
                self.res.is_valid = False
            if "stop" in self.error_policy:
                self.stopped = True
                stop_at = len(self.comps) - 1 if stop_at is None else stop_at
        if self.skipped:
            trace["skipped"] = True
            return False
        if stop_at is not None and stop_at != len(self.comps) - 1:
            trace["stopped_mid"] = True
            return False
        return self._decide(votes)

    def _decide(self, votes):
        if self.AND:
            return all(v is not False for v in votes)
        return any(v is True for v in votes)

    # ------------------------------------------------------------ components
    def _component(self, c):
        k = c[0]
        if k == "=":
            return self._assign(c)
        if k == "->":
            return self._when(c)
        if k == "f" and c[1] in SIDE_EFFECTS:
            if not self.AND:
                raise Undefined("bare side-effect component in OR mode")
            return self._side_effect(c)
        if k == "f" and c[1] in ("every", "first", "count") and not self.AND and c[1] == "count":
            raise Undefined("count(x) component in OR mode")
        return self.vote(c)

    def _rest_matches(self, me_index):
        """do all other components of this line vote positively?  Only defined when the
        other components are free of side effects this line depends on."""
        key = me_index
        if key in self.rest_cache:
            return self.rest_cache[key]
        votes = []
        for i, c in enumerate(self.comps):
            if i == me_index:
                continue
            if i > me_index and (c[0] in ("=", "->") or self._has_state(c)):
                # the look-ahead evaluates later components first: order of effects not documented
                raise Undefined("onmatch component followed by a writing/stateful component")
            if c[0] == "=" :
                if "onmatch" in c[2] or set(c[2]) & {"latch", "onchange", "increase", "decrease", "notnone", "asbool"}:
                    raise Undefined("onmatch look-ahead across a voting assignment")
                if self.error_policy is not None:
                    # an assignment whose right side raises makes its component vote False
                    if self._has_state(c[4]):
                        raise Undefined("onmatch look-ahead across a stateful assignment")
                    try:
                        self.val(c[4])
                    except ModelError:
                        votes.append(False)
                        continue
                votes.append(NEUTRAL)
                continue
            if c[0] == "->":
                if c[2][0] == "f" and c[2][1] in ("stop", "fail_and_stop", "skip", "advance"):
                    raise Undefined("onmatch look-ahead across a control action")
                lv = self._pure_vote(c[1])
                nocontrib = c[1][0] == "f" and "nocontrib" in c[1][2]
                votes.append(NEUTRAL if nocontrib else lv)
                continue
            if c[0] == "f" and c[1] in SIDE_EFFECTS:
                if "onmatch" in c[2]:
                    raise Undefined("two onmatch components on one line")
                if c[1] in ("stop", "fail_and_stop", "skip", "advance"):
                    raise Undefined("onmatch look-ahead across a control function")
                votes.append(NEUTRAL)
                continue
            votes.append(self._pure_vote(c))
        r = all(v is not False for v in votes) if self.AND else any(v is True for v in votes)
        self.rest_cache[key] = r
        return r

    def _pure_vote(self, n):
        if self._has_state(n):
            raise Undefined("onmatch look-ahead across a stateful component")
        return self.vote(n)

    def _has_state(self, n):
        if isinstance(n, list):
            if n and n[0] == "f" and n[1] in STATEFUL:
                return True
            return any(self._has_state(x) for x in n)
        return False

    # ------------------------------------------------------------- assignment
    def _assign(self, c):
        from . import assign as table
        _, name, quals, track, rhs = c
        if rhs[0] == "f" and rhs[1] == "count" and not rhs[3] and "onmatch" not in quals:
            # the docs only show '@t.onmatch = count()'; what a plain '@t = count()' does on a
            # line that does not match is not documented
            raise Undefined("plain assignment of count()")
        y = self.val(rhs)
        if isinstance(y, str):
            y = y.strip()
        x = self._get(name, track)
        tq = [q for q in quals if q in table.QUALS]
        if tq and any(isinstance(v, float) and v != v for v in (x, y)):
            # asbool / increase / decrease / onchange of nan: nothing documents how nan votes or compares
            raise Undefined("qualified assignment involving nan")
        if tq and not self.AND:
            raise Undefined("qualified assignment in OR mode")
        rest = True
        if "onmatch" in tq:
            rest = self._rest_matches(self.ci)
        if tq and ({"increase", "decrease"} & set(tq)):
            if (y is not None and num(y) is None) or (x is not None and num(x) is None):
                raise Undefined("increase/decrease on non-numbers")
            if x is not None and y is not None and (isinstance(x, str) or isinstance(y, str)):
                # cells are text: the docs do not say whether '10' > '9' is decided as
                # numbers or as text; only cases where both orders agree are defined
                nx, ny = num(x), num(y)
                sx, sy = S(x), S(y)
                if (nx < ny) != (sx < sy) or (nx > ny) != (sx > sy) or not (isinstance(x, str) and isinstance(y, str)):
                    if not (isinstance(x, str) and isinstance(y, str)):
                        raise Undefined("increase/decrease between text and a number")
                    raise Undefined("increase/decrease on numeric text whose text order differs")
            yy = None if y is None else num(y)
            xx = None if x is None else num(x)
            # (asbool judges the value as it is assigned - the cell text - not its numeric reading)
            write, votes, tol = self._decide_assign(tq, xx, yy, rest, truth_of=y)
        else:
            write, votes, tol = self._decide_assign(tq, x, y, rest)
        if len(votes) > 1:
            raise Undefined("assignment vote has two documented readings")
        if write:
            self._set(name, track, y)
        v = next(iter(votes))
        if not tq or "nocontrib" in tq:
            return NEUTRAL
        if v is True and not ({"latch", "onchange", "increase", "decrease", "notnone", "asbool", "onmatch"} & set(tq)):
            return NEUTRAL
        return True if v else False

    def _decide_assign(self, quals, x, y, rest, truth_of=None):
        from . import assign as table
        q = set(quals)
        if "onmatch" in q and not rest:
            write, votes = False, {False}
        else:
            blockers = []
            if "notnone" in q and y is None:
                blockers.append("notnone")
            if "increase" in q and (y is None or (x is not None and not y > x)):
                blockers.append("increase")
            if "decrease" in q and (y is None or (x is not None and not y < x)):
                blockers.append("decrease")
            if "latch" in q and x is not None:
                blockers.append("latch")
            if "onchange" in q and y == x:
                blockers.append("onchange")
            write = not blockers
            negative = [b for b in blockers if b != "latch"]
            if not negative:
                votes = {True}
            else:
                votes = {False}
                if "latch" in q and all(b in ("notnone", "increase", "decrease") for b in negative):
                    votes = {True, False}
        if "asbool" in q:
            votes = {(table.truth(y if truth_of is None else truth_of) if v else v) for v in votes}
        if "nocontrib" in q:
            votes = {True}
        return write, votes, False

    # ------------------------------------------------------------------ when
    def _when(self, c):
        _, l, r = c
        lv = self.vote(l)
        nocontrib = l[0] in ("f",) and "nocontrib" in l[2]
        if lv is True or (lv is NEUTRAL and self.AND):
            if lv is NEUTRAL:
                raise Undefined("neutral left side of ->")
            self._do_action(r)
            if nocontrib:
                return NEUTRAL
            return True
        if nocontrib:
            return NEUTRAL
        return False

    def _do_action(self, r):
        if r[0] == "=":
            self._assign_plain(r)
        elif r[0] == "f":
            if r[1] in SIDE_EFFECTS:
                self._side_effect(r)
            else:
                # a decider / value producer on the right is 'asked to match': deciders
                # with effects are listed in SIDE_EFFECTS; anything else has no effect
                if self._has_state(r):
                    raise Undefined("stateful value producer on the right of ->")
        else:
            raise Undefined("unsupported action")

    def _assign_plain(self, c):
        _, name, quals, track, rhs = c
        if quals:
            raise Undefined("qualified assignment on the right of ->")
        if rhs[0] == "f" and rhs[1] == "count" and not rhs[3]:
            raise Undefined("plain assignment of count()")
        y = self.val(rhs)
        if isinstance(y, str):
            y = y.strip()
        self._set(name, track, y)

    # ---------------------------------------------------------- side effects
    def _side_effect(self, c):
        _, name, quals, args = c
        if "onmatch" in quals:
            if not self.AND:
                raise Undefined("onmatch in OR mode")
            if not self._rest_matches(self.ci):
                return NEUTRAL
        fn = getattr(self, "_se_" + name)
        return fn(quals, args)

    def _qname(self, quals, default):
        for q in quals:
            if q not in KNOWN_QUALS:
                return q
        return default

    def _se_push(self, quals, args, distinct=False):
        nm = self.val(args[0])
        v = self.val(args[1])
        if isinstance(v, str):
            v = v.strip()
        st = self.vars.setdefault(nm, [])
        if not isinstance(st, list):
            raise Undefined("push to a non-stack variable")
        if (distinct or "distinct" in quals):
            if isinstance(v, float) and v != v:
                raise Undefined("push.distinct of nan")
            if v in st:
                return NEUTRAL
        if "notnone" in quals:
            if is_empty(v):
                if not st:
                    raise Undefined("push.notnone vote while the stack is empty")
                return NEUTRAL
        st.append(v)
        return NEUTRAL

    def _se_push_distinct(self, quals, args):
        return self._se_push(quals, args, distinct=True)

    def _se_stop(self, quals, args):
        if args:
            if self.vote(args[0]) is not True:
                return NEUTRAL
        self.stopped = True
        self.res.fired.append((self.pos, self.ci, "stop"))
        return NEUTRAL

    def _se_fail_and_stop(self, quals, args):
        if args:
            if self.vote(args[0]) is not True:
                return NEUTRAL
        self.stopped = True
        self.res.is_valid = False
        self.res.fired.append((self.pos, self.ci, "fail_and_stop"))
        return NEUTRAL

    def _se_skip(self, quals, args):
        if args:
            if self.vote(args[0]) is not True:
                return NEUTRAL
        self.skipped = True
        self.res.fired.append((self.pos, self.ci, "skip"))
        return NEUTRAL

    def _se_advance(self, quals, args):
        n = self.val(args[0])
        self.advance = int(n)
        self.res.fired.append((self.pos, self.ci, "advance"))
        return NEUTRAL

    def _se_fail(self, quals, args):
        self.res.is_valid = False
        self.res.fired.append((self.pos, self.ci, "fail"))
        return NEUTRAL

    def _se_print(self, quals, args):
        if "once" in quals:
            key = ("once", id(args))
            if getattr(self, "_once", None) is None:
                self._once = set()
            if key in self._once:
                return NEUTRAL
            self._once.add(key)
        tmpl = args[0]
        self.res.printouts.append(self.render_print(tmpl))
        return NEUTRAL

    def render_print(self, tmpl):
        """tmpl: ["t", text] or ["pt", [chunks]] where chunk = ["text", s] | ["ref", kind, ...]"""
        if tmpl[0] == "t":
            return str(tmpl[1])
        out = []
        for ch in tmpl[1]:
            if ch[0] == "text":
                out.append(ch[1])
            else:
                out.append(self._ref_value(ch))
        return "".join(out)

    def _ref_value(self, ch):
        kind = ch[1]
        if kind == "var":
            v = self.vars.get(ch[2])
            return str(v)
        if kind == "vartrack":
            v = self.vars.get(ch[2])
            if not isinstance(v, dict):
                raise Undefined("tracking reference to non-dict")
            return str(v.get(ch[3]))
        if kind == "stackidx":
            v = self.vars.get(ch[2])
            if not isinstance(v, list) or ch[3] >= len(v):
                raise Undefined("stack index out of range")
            return str(v[ch[3]])
        if kind == "stacklen":
            v = self.vars.get(ch[2])
            if not isinstance(v, list):
                raise Undefined("length of non-stack")
            return str(len(v))
        if kind == "hname":
            v = self._header(ch[2])
            if v is None:
                if getattr(self, "absent_header_wildcard", None):
                    return self.absent_header_wildcard
                raise Undefined("print of an absent header")
            return str(v)
        if kind == "hidx":
            v = self._header_i(ch[2])
            if v is None:
                if getattr(self, "absent_header_wildcard", None):
                    return self.absent_header_wildcard
                raise Undefined("print of an absent header")
            return str(v)
        if kind == "meta":
            return str(ch[3])
        if kind == "csvpath":
            f = ch[2]
            if f == "line_number":
                return str(self.pos)
            if f == "count_lines":
                # docs/functions/print.md: "the current line being processed" (1-based)
                return str(self.pos + 1)
            if f == "count_scans":
                return str(self.res.scan_count)
            if f == "count_matches":
                raise Undefined("count_matches mid-line")
            if f == "total_lines":
                if self.has_blank:
                    raise Undefined("total_lines with blank records")
                return str(len(self.records))
            if f == "valid":
                return str(self.res.is_valid)
            if f == "delimiter":
                return ","
            if f == "quotechar":
                return '"'
            if f == "identity":
                return str(ch[3])
        raise Undefined(f"reference {ch}")

    def _se_counter(self, quals, args):
        nm = self._qname(quals, None)
        if nm is None:
            raise Undefined("unnamed counter")
        n = 1 if not args else self.val(args[0])
        self.vars[nm] = self.vars.get(nm, 0) + int(n)
        self.cache[id(args)] = self.vars[nm]
        return NEUTRAL

    def _se_sum(self, quals, args):
        nm = self._qname(quals, "sum")
        v = num(self.val(args[0]))
        if v is None:
            raise Undefined("sum of a non-number")
        self.vars[nm] = self.vars.get(nm, 0) + float(v)
        return NEUTRAL

    def _se_subtotal(self, quals, args):
        nm = self._qname(quals, "subtotal")
        k = self.val(args[0])
        v = num(self.val(args[1]))
        if v is None or k is None:
            raise Undefined("subtotal of a non-number / None key")
        d = self.vars.setdefault(nm, {})
        d[k] = d.get(k, 0) + float(v)
        return NEUTRAL

    def _se_tally(self, quals, args):
        nm = self._qname(quals, "tally")
        vals = []
        for a in args:
            if a[0] not in ("h", "v"):
                raise Undefined("tally of something other than a header/variable")
            v = self.val(a)
            if v is None:
                raise Undefined("tally of an absent value")
            vals.append(v)
            sv = str(v)
            if sv.strip() == "":
                continue   # "Cannot store an empty tracking value": empty values are not tallied
            d = self.vars.setdefault(f"{nm}_{a[1]}", {})
            d[sv] = d.get(sv, 0) + 1
        if len(args) > 1:
            # docs/functions/tally.md: "the concatenation of the values, pipe delimited"
            key = "|".join(str(v) for v in vals)
            if key.strip() != "":
                d = self.vars.setdefault(nm, {})
                d[key] = d.get(key, 0) + 1
        return NEUTRAL

    def _se_track(self, quals, args):
        nm = self._qname(quals, None)
        if nm is None:
            raise Undefined("unnamed track")
        k = self.val(args[0])
        v = self.val(args[1])
        if k is None or is_empty(k):
            raise Undefined("track with empty key")
        if isinstance(v, str):
            v = v.strip()
        d = self.vars.setdefault(nm, {})
        d[S(k)] = v
        return NEUTRAL

    def _se_put(self, quals, args):
        nm = self.val(args[0])
        if len(args) == 2:
            self.vars[nm] = self.val(args[1])
        else:
            k = self.val(args[1])
            d = self.vars.setdefault(nm, {})
            d[k] = self.val(args[2])
        return NEUTRAL

    def _se_pop(self, quals, args):
        nm = self.val(args[0])
        st = self.vars.setdefault(nm, [])
        if st:
            st.pop()
        return NEUTRAL

    # ------------------------------------------------------------- variables
    def _get(self, name, track=None):
        v = self.vars.get(name)
        if track is None:
            return v
        if isinstance(v, dict):
            if track not in v and track in ("True", "False"):
                # the keys of a count of booleans are the booleans; '@name.True' / '@name.False' read them
                return v.get(track == "True")
            return v.get(track)
        return None

    def _set(self, name, track, value):
        if track is None:
            self.vars[name] = value
        else:
            d = self.vars.setdefault(name, {})
            if not isinstance(d, dict):
                raise Undefined("tracking write to a non-dict variable")
            d[track] = value

    def _header(self, name):
        if name not in self.headers:
            return None
        return self._header_i(self.headers.index(name))

    def _header_i(self, i):
        if i >= len(self.rec):
            return None
        return self.rec[i].strip()

    # ----------------------------------------------------------------- value
    def val(self, n):
        k = n[0]
        if k == "t":
            v = n[1]
            return v.strip() if isinstance(v, str) else v
        if k == "rx":
            return n[1]
        if k == "h":
            return self._header(n[1])
        if k == "hi":
            return self._header_i(n[1])
        if k == "v":
            return self.vars.get(n[1])
        if k == "vt":
            return self._get(n[1], n[2])
        if k == "==":
            return self.vote(n)
        if k == "f":
            key = id(n)
            if key in self.cache:
                return self.cache[key]
            v = self._fval(n)
            self.cache[key] = v
            return v
        raise Undefined(f"value of {k}")

    def _nums(self, args):
        out = []
        for a in args:
            v = num(self.val(a))
            if v is None:
                if self.error_policy is not None and isinstance(self.val(a), str) and self.val(a).strip() != "":
                    raise ModelError("arithmetic on non-numeric text")
                raise Undefined("arithmetic on a non-number")
            if v != v:
                raise Undefined("nan as an operand")
            out.append(v)
        return out

    def _fval(self, n):
        _, name, quals, args = n
        if name == "regex":
            # docs/functions/regex.md: "If there is any match it is returned"
            ri = 0 if args[0][0] == "rx" else 1
            m = re.search(self.val(args[ri]), self._str(args[1 - ri]))
            if m is None:
                return None
            if m.group(0).strip() == "":
                raise Undefined("regex matching the empty string")
            return m.group(0).strip()
        if name in DECIDERS:
            return self.vote(n)
        if name == "concat":
            return "".join(S(self._str(a)) for a in args).strip()
        if name == "lower":
            return self._str(args[0]).lower().strip()
        if name == "upper":
            return self._str(args[0]).upper().strip()
        if name == "strip":
            return self._str(args[0]).strip()
        if name == "substring":
            s = self._str(args[0])
            i = self.val(args[1])
            if not isinstance(i, int) or i < 0:
                raise Undefined("substring with a non-int or negative length")
            return s[:i].strip()
        if name == "length":
            v = self.val(args[0])
            if v is None:
                return 0
            return len(S(v))
        if name == "add":
            r = 0.0
            for v in self._nums(args):
                r = float(v) + r
            return r
        if name == "subtract":
            vs = self._nums(args)
            r = float(vs[0])
            for v in vs[1:]:
                r = r - float(v)
            return r
        if name == "minus":
            vs = self._nums(args)
            if len(vs) == 1:
                return -vs[0]
            raise Undefined("minus with several arguments")
        if name == "multiply":
            vs = self._nums(args)
            r = float(vs[0])
            for v in vs[1:]:
                r = r * float(v)
            return r
        if name == "divide":
            vs = self._nums(args)
            r = float(vs[0])
            for v in vs[1:]:
                if float(v) == 0 or math.isnan(r):
                    r = float("nan")
                else:
                    r = r / float(v)
            return r
        if name == "mod":
            a, b = self._nums(args)
            if float(b) == 0:
                raise Undefined("mod by zero")
            return round(float(a) % float(b), 2)
        if name == "round":
            vs = self._nums(args[:1])
            p = 2 if len(args) < 2 else self.val(args[1])
            v = float(vs[0])
            sc = v * (10 ** p)
            if abs(sc - math.floor(sc) - 0.5) < 1e-9:
                raise Undefined("round at an exact tie")
            return round(v, p)
        if name == "int":
            v = self.val(args[0])
            if v is None:
                raise Undefined("int(None)")
            if isinstance(v, str) and v.strip() == "":
                return 0
            nv = num(v)
            if nv is None:
                raise Undefined("int of non-numeric text")
            if isinstance(nv, float) and nv != int(nv):
                raise Undefined("int of a fractional number")
            return int(nv)
        if name == "float":
            v = self.val(args[0])
            if v is None:
                raise Undefined("float(None)")
            if isinstance(v, str) and v.strip() == "":
                return 0.0
            nv = num(v)
            if nv is None:
                raise Undefined("float of non-numeric text")
            return float(nv)
        if name == "none":
            return None
        if name == "count":
            if not args:
                return self.count_value
            # count.name(x) used for its value: the count of the value seen on this line, including this line
            self.vote(n)
            if id(n) not in self.cache:
                raise Undefined("count(x) as a value")
            return self.cache[id(n)]
        if name == "count_lines":
            return self.data_count
        if name == "count_scans":
            return self.res.scan_count
        if name == "line_number":
            return self.pos
        if name == "total_lines":
            if self.has_blank:
                raise Undefined("total_lines with blank records")
            return len(self.records)
        if name == "count_headers":
            return len(self.headers)
        if name == "count_headers_in_line":
            return len(self.rec)
        if name == "end":
            # docs/functions/end.md: the value of the last header (minus n)
            if len(self.rec) != len(self.headers):
                raise Undefined("end() on a row whose length differs from the header row")
            i = len(self.rec) - 1 - (abs(int(self.val(args[0]))) if args else 0)
            if i < 0:
                raise Undefined("end(n) before the first header")
            return self.rec[i].strip()
        if name == "peek":
            st = self.vars.get(self.val(args[0]), [])
            i = self.val(args[1])
            if not isinstance(st, list):
                raise Undefined("peek of a non-stack")
            return st[i] if 0 <= i < len(st) else None
        if name in ("peek_size", "size"):
            st = self.vars.get(self.val(args[0]), [])
            if not isinstance(st, list):
                raise Undefined("size of a non-stack")
            return len(st)
        if name == "pop":
            st = self.vars.setdefault(self.val(args[0]), [])
            if not isinstance(st, list):
                raise Undefined("pop of a non-stack")
            return st.pop() if st else None
        if name == "get":
            nm = self.val(args[0])
            if len(args) == 1:
                return self.vars.get(nm)
            d = self.vars.get(nm)
            k = self.val(args[1])
            if isinstance(d, dict):
                return d.get(k)
            raise Undefined("get(name, key) on a non-dict")
        if name == "counter":
            self._se_counter(quals, args)
            return self.cache[id(args)]
        if name == "sum":
            self._se_sum(quals, args)
            return self.vars[self._qname(quals, "sum")]
        raise Undefined(f"value of function {name}")

    def _str(self, a):
        v = self.val(a)
        if not isinstance(v, str) or v.strip() == "":
            raise Undefined("string function on a non-string / empty value")
        return v

    # ------------------------------------------------------------------ vote
    def vote(self, n):
        k = n[0]
        if k == "h" or k == "hi":
            v = self.val(n)
            return v is not None and v != ""
        if k == "v" or k == "vt":
            return self.val(n) is not None
        if k == "==":
            return self._equal(self.val(n[1]), self.val(n[2]))
        if k == "t":
            raise Undefined("term as a match component")
        if k == "f":
            key = ("vote", id(n))
            if key in self.cache:
                return self.cache[key]
            r = self._fvote(n)
            self.cache[key] = r
            return r
        raise Undefined(f"vote of {k}")

    def _equal(self, a, b):
        if a is None and b is None:
            raise Undefined("== with both sides absent")
        if a is None or b is None:
            if (a is None and b == "") or (b is None and a == ""):
                raise Undefined("== between absent and empty")
            return False
        if isinstance(a, bool) or isinstance(b, bool):
            raise Undefined("== on booleans")
        if isinstance(a, float) or isinstance(b, float):
            if is_number(a) and is_number(b):
                if a != a or b != b:
                    raise Undefined("== on nan")
                return a == b
            raise Undefined("== between a float and text")
        if isinstance(a, str) and isinstance(b, str):
            if a.strip() == "" and b.strip() == "":
                raise Undefined("== with both sides empty")
            return S(a) == S(b)
        if isinstance(a, (list, dict)) or isinstance(b, (list, dict)):
            raise Undefined("== on collections")
        # int / int-text
        if S(a) == S(b):
            return True
        na, nb = num(a), num(b)
        if na is not None and nb is not None and na == nb:
            raise Undefined("numerically equal, differently written")
        return False

    def _order(self, a, b):
        """-> (a, b) comparable pair or raises Undefined"""
        na, nb = num(a), num(b)
        if (na is not None and na != na) or (nb is not None and nb != nb):
            raise Undefined("ordering nan")
        if na is not None and nb is not None:
            return float(na), float(nb)
        if isinstance(a, str) and isinstance(b, str) and na is None and nb is None:
            if a.strip() == "" or b.strip() == "":
                raise Undefined("ordering an empty string")
            return S(a), S(b)
        raise Undefined("ordering a number against non-numeric text")

    def _fvote(self, n):
        _, name, quals, args = n
        if name in ("yes", "true"):
            return True
        if name in ("no", "false"):
            return False
        if name == "not":
            v = self.vote(args[0])
            if v is NEUTRAL:
                raise Undefined("not() of a neutral vote")
            return not v
        if name == "and":
            for a in args:
                v = self.vote(a)
                if v is NEUTRAL:
                    raise Undefined("and() over a neutral vote")
                if not v:
                    return False
            return True
        if name == "or":
            for a in args:
                v = self.vote(a)
                if v is NEUTRAL:
                    raise Undefined("or() over a neutral vote")
                if v:
                    return True
            return False
        if name == "in":
            v = self.val(args[0])
            if not isinstance(v, str) or v == "":
                raise Undefined("in() of a non-text value")
            members = []
            for a in args[1:]:
                mv = self.val(a)
                if a[0] == "t":
                    members += [x.strip() for x in str(mv).split("|")]
                else:
                    if not isinstance(mv, str):
                        raise Undefined("in() across value types")
                    members.append(mv.strip())
            return v.strip() in members
        if name == "empty":
            return all(is_empty(self.val(a)) for a in args)
        if name == "exists":
            return not is_empty(self.val(args[0]))
        if name in ("all", "missing"):
            if len(args) == 0:
                # docs/functions/all.md: "True if all headers contain data ... the number of headers and row
                # columns must be equal"
                r = len(self.rec) == len(self.headers) and all(not is_empty(c) for c in self.rec)
                return r if name == "all" else not r
            if len(args) < 2:
                raise Undefined("all()/missing() with fewer than two arguments")
            r = all(not is_empty(self.val(a)) for a in args)
            return r if name == "all" else not r
        if name in ABOVE:
            a, b = self.val(args[0]), self.val(args[1])
            if a is None and b is None:
                raise Undefined("ordering None against None")
            if a is None or b is None:
                return False
            if isinstance(a, bool) or isinstance(b, bool):
                raise Undefined("ordering booleans")
            x, y = self._order(a, b)
            if x != x or y != y:
                return False
            op = ABOVE[name]
            if op == "<" and x == y:
                self.res.flags.add("lt_equal")
            return {">": x > y, ">=": x >= y, "<": x < y, "<=": x <= y}[op]
        if name in BETWEEN:
            vs = [self.val(a) for a in args]
            if any(v is None for v in vs):
                return False
            ns = [num(v) for v in vs]
            if all(x is not None for x in ns):
                me, a, b = [float(x) for x in ns]
            elif all(isinstance(v, str) and num(v) is None and v.strip() != "" for v in vs):
                me, a, b = [S(v) for v in vs]
            else:
                raise Undefined("between over mixed types")
            lo, hi = (a, b) if a <= b else (b, a)
            kind = BETWEEN[name]
            if kind == "in":
                return lo < me < hi
            if kind == "incl":
                return lo <= me <= hi
            return me < lo or me > hi
        if name in ("equals", "eq"):
            a, b = self.val(args[0]), self.val(args[1])
            if is_empty(a) or is_empty(b):
                raise Undefined("equals() on empty values")
            if isinstance(a, bool) or isinstance(b, bool):
                raise Undefined("equals() on booleans")
            na, nb = num(a), num(b)
            if na is not None and nb is not None:
                return float(na) == float(nb)
            if na is not None or nb is not None:
                return False
            return S(a) == S(b)
        if name == "starts_with":
            a, b = self._str(args[0]), self._str(args[1])
            return S(a).startswith(S(b))
        if name in ("regex", "exact"):
            ri = 0 if args[0][0] == "rx" else 1
            rx = self.val(args[ri])
            v = self._str(args[1 - ri])
            m = re.search(rx, v)
            if m is not None and m.group(0) == "":
                raise Undefined("regex matching the empty string")
            if name == "regex":
                return m is not None
            return m is not None and m.group(0) == v
        if name in ("min_length", "too_long", "max_length", "too_short"):
            v = self._str(args[0])
            ln = len(S(v))
            k = self.val(args[1])
            if ln == k:
                raise Undefined("length equal to the bound")
            if name in ("min_length", "too_long"):
                return ln > k
            return ln < k
        if name == "firstline":
            # docs/functions/last.md: "True only for the 0th row; the headers row" - when the file
            # starts with blank records the two readings differ
            if self.hdr_pos != 0:
                raise Undefined("firstline() in a file that starts with a blank record")
            return self.pos == 0
        if name == "firstscan":
            return self.res.scan_count == 1
        if name == "after_blank":
            # docs/functions/after_blank.md: the preceding physical line had no data in any header,
            # no characters at all, or only whitespace
            if self.pos == 0:
                return False
            prev = self.records[self.pos - 1]
            return all(c.strip() == "" for c in prev)
        if name == "last":
            if args:
                raise Undefined("last(x)")
            r = bool(self.is_last_scan)
            if r:
                if self.last_fired:
                    raise Undefined("last() evaluated twice")
                self.last_fired = True
            return r
        if name == "failed":
            return not self.res.is_valid
        if name == "valid":
            return self.res.is_valid
        if name == "every":
            nm = self._qname(quals, None)
            if nm is None:
                raise Undefined("unnamed every")
            v = self.val(args[0])
            if v is None or is_empty(v):
                raise Undefined("every over an empty value")
            k = self.val(args[1])
            d = self.vars.setdefault(nm, {})
            d[v] = d.get(v, 0) + 1
            return d[v] % k == 0
        if name == "first":
            nm = self._qname(quals, "first")
            vs = []
            for a in args:
                v = self.val(a)
                if v is None or is_empty(v):
                    raise Undefined("first over an empty value")
                vs.append(str(v))
            key = "".join(vs).strip()
            d = self.vars.setdefault(nm, {})
            if key in d:
                return False
            d[key] = self.pos
            return True
        if name == "count":
            # count.name(x): tracking count of x's value; used as a component it is neutral
            nm = self._qname(quals, None)
            if not args:
                return NEUTRAL
            if nm is None:
                raise Undefined("unnamed count(x)")
            a = args[0]
            if a[0] in ("h", "hi", "v", "vt", "t") or (a[0] == "f" and a[1] not in DECIDERS):
                v = self.val(a)
                if v is None or is_empty(v):
                    raise Undefined("count of an empty value")
            else:
                v = self.vote(a)
                if v is NEUTRAL:
                    raise Undefined("count of a neutral vote")
            d = self.vars.setdefault(nm, {})
            d[v] = d.get(v, 0) + 1
            self.cache[id(n)] = d[v]
            return NEUTRAL
        if name in VALUE_ONLY:
            raise Undefined(f"{name} used as a match component")
        raise Undefined(f"vote of function {name}")


SIDE_EFFECTS = {"push", "push_distinct", "stop", "fail_and_stop", "skip", "advance", "fail",
                "print", "counter", "sum", "subtotal", "tally", "track", "put", "pop"}
STATEFUL = SIDE_EFFECTS | {"every", "first", "count", "last", "pop"}
DECIDERS = {"yes", "true", "no", "false", "not", "and", "or", "in", "empty", "exists", "all",
            "missing", "equals", "eq", "starts_with", "regex", "exact", "min_length", "too_long", "after_blank",
            "max_length", "too_short", "firstline", "firstscan", "last", "failed", "valid",
            "every", "first"} | set(ABOVE) | set(BETWEEN)
VALUE_ONLY = {"concat", "lower", "upper", "strip", "substring", "length", "add", "subtract",
              "minus", "multiply", "divide", "mod", "round", "int", "float", "count_lines",
              "count_scans", "line_number", "total_lines", "count_headers",
              "count_headers_in_line", "peek", "peek_size", "size", "get", "end"}
KNOWN_QUALS = {"onmatch", "onchange", "asbool", "nocontrib", "latch", "increase", "decrease",
               "notnone", "once", "distinct", "strict"}

"""Scan part -> set of line numbers (README rules as set algebra).  No csvpath import.

'*' every line, 'N*' line N to the end, 'N' that line, 'a-b' the inclusive range in
either order, '+' the union of its operands.
"""


def denote(scan, nrecords):
    """scan: text between the brackets, e.g. '0-3+9'.  Returns sorted list of
    0-based record positions < nrecords."""
    scan = scan.replace(" ", "")
    out = set()
    for term in scan.split("+"):
        if term == "*":
            out.update(range(nrecords))
        elif term.endswith("*"):
            n = int(term[:-1])
            out.update(range(n, nrecords))
        elif "-" in term:
            a, b = term.split("-")
            a, b = int(a), int(b)
            lo, hi = min(a, b), max(a, b)
            out.update(i for i in range(lo, hi + 1) if i < nrecords)
        else:
            n = int(term)
            if n < nrecords:
                out.add(n)
    return sorted(out)


def list_shapes(bound, maxterms=4):
    """every '+'-joined ascending, non-overlapping list of single numbers and forward
    ranges over 0..bound with <= maxterms terms (as strings)."""
    out = []

    def rec(start, terms):
        if terms:
            out.append("+".join(terms))
        if len(terms) == maxterms:
            return
        for a in range(start, bound + 1):
            rec(a + 1, terms + [str(a)])
            for b in range(a + 1, bound + 1):
                rec(b + 1, terms + [f"{a}-{b}"])

    rec(0, [])
    return out


def all_shapes(bound):
    shapes = ["*"]
    shapes += [f"{n}*" for n in range(bound + 1)]
    shapes += [f"{a}-{b}" for a in range(bound + 1) for b in range(bound + 1)]
    seen = set(shapes)
    for s in list_shapes(bound):
        if s not in seen:
            seen.add(s)
            shapes.append(s)
    return shapes

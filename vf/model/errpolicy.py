"""Error-policy outcome model: one line per flag, straight from the C05 statement.
No csvpath import."""

OVERRIDABLE = ("raise", "stop", "fail", "print")


def effective(policy, override):
    """effective flag = validation-mode override if present else policy"""
    f = {k: (k in policy) for k in ("raise", "collect", "stop", "fail", "print")}
    match = False
    # a validation-mode comment may carry several settings: 'match, stop'
    for part in [x.strip() for x in (override or "").split(",") if x.strip()]:
        if part.startswith("no-") and part[3:] in OVERRIDABLE:
            f[part[3:]] = False
        elif part in OVERRIDABLE:
            f[part] = True
        elif part == "match":
            match = True
        elif part == "no-match":
            match = False
    return f, match


def expect(policy, override, bad, scanned):
    """bad: line numbers whose evaluation raises; scanned: line numbers offered to the
    match part, in order."""
    f, match = effective(policy, override)
    reached = []
    lines_run = []
    for n in scanned:
        lines_run.append(n)
        if n in bad:
            reached.append(n)
            if f["raise"] or f["stop"]:
                break
    return {
        "raises": bool(f["raise"] and reached),
        "error_lines": list(reached) if f["collect"] else [],
        "is_valid": not (f["fail"] and reached),
        "printed": bool(f["print"] and reached),
        "lines_run": lines_run,
        # "the line does not match (unless validation-mode says match)": with match the offending lines are
        # returned too (left open for the line on which a 'stop' or 'raise' ends the run)
        "returned_must": [n for n in lines_run if n not in bad or (match and not f["stop"] and not f["raise"])],
        "returned_must_not": [] if match else [n for n in lines_run if n in bad],
    }

"""Decision table for '@x.<qualifiers> = y' (docs/assignment.md + the C14 statement).

Pure function, no csvpath import.  Values: None = absent, else text such as "1", "true".
"""

QUALS = ["onmatch", "latch", "onchange", "increase", "decrease", "notnone", "asbool", "nocontrib"]


def _num(v):
    return int(v)


def truth(y):
    """asbool: like Python's bool() plus 'true'/'false' text (docs/assignment.md)"""
    if y is None:
        return False
    s = str(y).strip().lower()
    if s == "false":
        return False
    if s == "true":
        return True
    return bool(y)


def decide(quals, x, y, rest):
    """-> (write?, set of admissible votes).  A vote of True means 'does not stop the
    line from matching' (positive or neutral in AND mode), False is a negative vote."""
    q = set(quals)
    tolerated = False
    if "onmatch" in q and not rest:
        write = False
        votes = {False}
    else:
        blockers = []
        if "notnone" in q and y is None:
            blockers.append("notnone")
        if "increase" in q and (y is None or (x is not None and not _num(y) > _num(x))):
            blockers.append("increase")
        if "decrease" in q and (y is None or (x is not None and not _num(y) < _num(x))):
            blockers.append("decrease")
        if "latch" in q and x is not None:
            blockers.append("latch")
        if "onchange" in q and y == x:
            blockers.append("onchange")
        write = not blockers
        negative = [b for b in blockers if b != "latch"]
        if not negative:
            votes = {True}
        else:
            votes = {False}
            if "latch" in q and all(b in ("notnone", "increase", "decrease") for b in negative):
                # docs: latch 'never votes negative' vs notnone/increase/decrease 'report
                # False': two readings, both admitted (counted as tolerated)
                votes = {True, False}
                tolerated = True
    if "asbool" in q:
        votes = {(truth(y) if v else v) for v in votes}
    if "nocontrib" in q:
        votes = {True}
    if len(votes) < 2:
        tolerated = False
    return write, votes, tolerated

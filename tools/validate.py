#!/usr/bin/env python3
"""Validate MANIFEST.json and every evidence file against the schemas (uses python3-vt's jsonschema)."""
import json, glob, sys
import jsonschema
ok = True
ms = json.load(open("/root/.vp/MANIFEST.schema.json")); es = json.load(open("/root/.vp/EVIDENCE.schema.json"))
try:
    jsonschema.validate(json.load(open("/verif/MANIFEST.json")), ms); print("MANIFEST ok")
except Exception as e:
    ok = False; print("MANIFEST INVALID", e)
for f in sorted(glob.glob("/verif/evidence/*.json")):
    try:
        jsonschema.validate(json.load(open(f)), es); print(f, "ok")
    except Exception as e:
        ok = False; print(f, "INVALID", str(e)[:300])
sys.exit(0 if ok else 1)

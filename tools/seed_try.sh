#!/bin/sh
# usage: seed_try.sh <patch file> <ID> [tier]  -- apply a seeded change to /repo, run a check, undo it
P=$1; ID=$2; TIER=${3:-quick}
cd /repo || exit 2
git diff --quiet || { echo "/repo not clean"; exit 2; }
git apply "$P" || { echo "PATCH DOES NOT APPLY to /repo HEAD"; exit 3; }
cd /verif && ./check $ID $TIER 2>&1 | tail -4; RC=$?
cd /repo && git checkout -- . && git status --short | grep -v '^??'
echo "check_rc_line_above"

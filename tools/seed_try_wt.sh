#!/bin/sh
# usage: seed_try_wt.sh <patch file> <ID> [tier]  -- like seed_try.sh but applies the change to a scratch
# worktree of /repo HEAD (outside /repo and /verif) and points the check at it with VF_REPO, so that
# /repo itself stays untouched while background runs use it.
P=$1; ID=$2; TIER=${3:-quick}
WT=/tmp/seedwt_$$
git -C /repo worktree add -q --detach $WT HEAD || exit 2
( cd $WT && git apply "$P" ) || { echo "PATCH DOES NOT APPLY"; git -C /repo worktree remove --force $WT; exit 3; }
# (evidence of a run against a seeded change goes to a scratch directory, not to /verif/evidence)
cd /verif && VF_REPO=$WT VF_EVIDENCE_DIR=/tmp/seed_evidence ./check $ID $TIER 2>&1 | grep -v KNOWN | tail -3
git -C /repo worktree remove --force $WT

#!/usr/bin/env python3
"""Rewrite the generated tables of DESIGN.md (between the AUTOGEN markers) from
known_findings.json and seeded/*/meta.json."""
import glob, json, os, re
ROOT = os.path.dirname(os.path.dirname(os.path.abspath(__file__)))
kf = json.load(open(os.path.join(ROOT, "known_findings.json")))["findings"]
rows = []
for f in kf:
    if f["status"] == "fixed":
        rows.append(f"| {f['property']} | fixed `{f['commit']}` | {f['what']} | `{f['replay']}` |")
    else:
        rows.append(f"| {f['property']} | **known** `{f['id']}` | {f['what']} (trigger: {f['trigger']}) | `{f['replay']}` |")
ftab = "| property | status | what failed on the unchanged tree | replay |\n|---|---|---|---|\n" + "\n".join(rows)
srows = []
for d in sorted(x for x in glob.glob(os.path.join(ROOT, "seeded", "*")) if os.path.isdir(x)):
    m = json.load(open(os.path.join(d, "meta.json")))
    first = m["needs_to_manifest"].strip().split("\n")
    head = next((l for l in first if l.strip() and not l.startswith("#")), "").strip("-* ")[:230]
    srows.append(f"| `{os.path.basename(d)}` | {m['property']} | {head} | {m['detected_by_check']} | {m['detection_note']} |")
stab = "| seeded change | property | what it changes / needs (from the author's notes) | caught | by which check, what was needed |\n|---|---|---|---|---|\n" + "\n".join(srows)
p = os.path.join(ROOT, "DESIGN.md")
s = open(p).read()
def put(s, name, body):
    a, b = f"<!-- AUTOGEN:{name} -->", f"<!-- /AUTOGEN:{name} -->"
    return re.sub(re.escape(a) + ".*?" + re.escape(b), lambda _: a + "\n" + body + "\n" + b, s, flags=re.S)
s = put(s, "findings", ftab)
s = put(s, "seeded", stab)
open(p, "w").write(s)
print("findings:", len(rows), "seeded:", len(srows))

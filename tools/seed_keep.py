#!/usr/bin/env python3
"""usage: seed_keep.py <ID> <A|B> <caught: yes|no|after-strengthening> "<one line: which check/what was needed>"
copies a confirmed sub-agent change into /verif/seeded/<ID>-<X>/ with meta.json"""
import json, os, shutil, sys
pid, x, caught, note = sys.argv[1:5]
src = f"/tmp/seed/out_{pid}"
dst = f"/verif/seeded/{pid}-{x}"
os.makedirs(dst, exist_ok=True)
shutil.copy(f"{src}/{x}.patch.diff", f"{dst}/patch.diff")
shutil.copy(f"{src}/{x}.demo.py", f"{dst}/demo.py")
notes = open(f"{src}/{x}.notes.md").read()
meta = {
    "property": pid[:3],
    "origin": "independent sub-agent given only the property text and a scratch worktree",
    "needs_to_manifest": notes,
    "confirmed_by_me": "tools/seed_verify.sh: stable suite 538 passed with the patch; demo exits 1 with the patch and 0 on the clean tree (scratch worktree outside /repo and /verif)",
    "checked_with": f"tools/seed_try.sh (or seed_try_wt.sh: scratch worktree + VF_REPO) seeded/{pid}-{x}/patch.diff {pid[:3]} quick",
    "detected_by_check": caught,
    "detection_note": note,
}
json.dump(meta, open(f"{dst}/meta.json", "w"), indent=1)
print("kept", dst)

#!/usr/bin/env python3
"""Regenerate /verif/MANIFEST.json from the table below (kept in one place so the
manifest is always schema-valid).  Validate with tools/validate.py."""
import json
import os

ROOT = os.path.dirname(os.path.dirname(os.path.abspath(__file__)))

CHECKS = {
    "C17": dict(
        category="exploration",
        technique="round trip AST -> text (3 random layouts) -> real parser -> normalised tree dump, over Hypothesis-generated structural and typed ASTs; metamorphic layout/outer-comment invariance of run results",
        text="(1) Structural ASTs over all component kinds and every function name the factory resolves (count reported in evidence), arity 0-4, well-known and arbitrary qualifiers, quoted headers, signed/decimal numbers, regex terms, references, nesting <=4, parsed with LarkParser + LarkTransformer (no arity validation in the way): no _ambig node and the dump equals the source AST for every layout. (2) Runnable typed programs through CsvPath.parse (Matcher.expressions dump) and a run per layout: identical results, also with a mode-free outer comment added. Layouts draw from space, tab, LF, CRLF, form feed and inner comments; arbitrary qualifiers and variable names include mixed-case ones.",
        note="Trusted: the renderer and the dump normaliser in vf/props/c17.py. Whitespace is always kept before '->' ('-' is a legal name character); quoted headers carry no qualifiers (no grammar form).",
        design="5 C17",
    ),
    "C18": dict(
        category="fault_enumeration",
        technique="fault enumeration over (member, line) abort points in Hypothesis-generated groups, all six run methods, followed by a further run on the same instance; invariants over the archive",
        text="Groups of 1-4 generated csvpaths over tables of <=8 data lines; the abort is induced at (member i, line k) by an argument error or a Python exception raised through validation-mode: raise on that member or a policy with raise. Quick draws one point per group; thorough enumerates every point of every generated group. Checked: the exception reaches the caller; every started member has readable meta/vars/errors; the aborting member's errors.json names line k and its manifest says completed false; members finished earlier equal their standalone runs; the run manifest is not 'complete'; inputs/ unchanged; a further run on the same instance raises nothing, gets its own directory with status complete and leaves the aborted run's manifest not complete.",
        note="Aborts are induced through csvpath programs and policies only (no process kill between two writes).",
        design="5 C18",
    ),
    "C19": dict(
        category="exploration",
        technique="twin-run differential: every job of a Hypothesis-generated history vs the same job alone in a fresh Python process with an empty cache",
        text="Histories of 2-6 (csvpath, file) jobs in one long-lived process, created by CsvPath() or CsvPaths().csvpath(), over files whose header cells may contain quotes, delimiters, leading quotes and spaces, optionally a file path rewritten with new content (also with the same size inside the same second, modification time pinned by the harness), the [errors] policy of config.ini drawn per case with an erroring observer component, cache cold or populated by an earlier process. Each job's (lines, variables, printouts, errors, validity, counters, headers) must equal its fresh-process twin; a repeated job repeats its tuple.",
        note="Twins are subprocesses (python -m vf.props.c19) with their own scratch directory and the same relative file path.",
        design="5 C19",
    ),
    "C20": dict(
        category="exploration",
        technique="composition oracle: chains vs standalone stage-by-stage runs over harness-written files; reference values vs standalone results of the most recent run; replay vs the referenced data.csv",
        text="(a) Chains of 2-4 generated filters with source-mode: preceding on a drawn suffix (collect_paths): each stage must return what a standalone CsvPath returns over a file written from the previous stage's expected lines, and its manifest must name the predecessor's data.csv with source_mode_preceding true. (b) A group of variable-writing members run 1-3 times on one instance over different files, then a reader assigning $g.variables.v, $g.variables.v.key and $g.headers.name[.id]: values equal the standalone results of the most recent run. (c) '$g.results.<prefix>:last.<id>' as a file name replays exactly the member's data.csv.",
        note="Chains whose intermediate stage returns nothing are discarded (counted).",
        design="5 C20",
    ),
    "C09": dict(
        category="exploration",
        technique="consistency checking between memory, archived files, member manifests and run manifest, with the standalone run as independent source, over Hypothesis-generated groups and all six run methods",
        text="Groups of 1-4 generated csvpaths (identity- or index-named, optional unmatched-mode: keep, printouts, endings by exhaustion / stop() / fail()) over tables with cells containing quotes, commas and newlines, run by one of the six methods on a fresh CsvPaths. After the run: run manifest status complete; one directory per member; meta/vars/errors/manifest readable; vars.json == JSON of the member's variables == standalone; errors.json lines; printouts.txt sections; data.csv/unmatched.csv parse back to the standalone lines; member manifest valid/completed/file_fingerprints (sha256 recomputed from disk for exactly the files present); run manifest all_valid/all_completed/error_count; results_manager.is_valid.",
        note="Standalone run is the source of 'what the run did'. Time/uuid/path-valued fields not compared; printouts not compared when errors were collected.",
        design="5 C09",
    ),
    "C10": dict(
        category="exploration",
        technique="exhaustive enumeration of run histories under a harness-owned clock plus Hypothesis-drawn longer histories, history invariants after every run",
        text="Histories over {2 groups} x {new, reused instance} x non-decreasing scripted instants (same second, +1 s, 12:59:59/13:00:00, 23:59:59/next-day 00:00:00): all canonical histories up to length 3 (quick) / 5 (thorough) with collect_paths, plus drawn histories of length 5-8 over all six methods. After every run: exactly one new directory, under the run's own group, equal to the results' run_dir; sha256 of every file of every earlier run unchanged; '$g.results.<prefix>:last|:first.<id>' resolves to the data of the most recent / earliest run (by scripted start second) whose directory has the prefix, when asked of the instance that just ran and of the three oldest instances of the history, which stay alive.",
        note="Clock patched through module attributes csvpath.csvpaths.datetime and csvpath.managers.metadata.datetime; a directory not dated 2031 => harness error. Ties within a second accept any tied run.",
        design="5 C10",
    ),
    "C15": dict(
        category="exploration",
        technique="metamorphic relations between runs of the same generated csvpath under generated outer comments and mode settings",
        text="Generated csvpaths x outer comments (free text, 0-4 multi-word metadata fields, stand-alone-colon tail, before or after the path, mode settings inserted at a drawn position): metadata captured word for word and the run unchanged by a mode-free comment; a messy comment with modes behaves like the minimal comment with the same modes; return-mode no-matches is the exact ordered complement of the default over the scanned lines; run-mode no-run does nothing; print-mode no-default silences standard out only (attached printer unchanged); unmatched-mode keep partitions the records read.",
        note="No reference model: relations between runs. 'Records read' is taken from the run's own last consumed line.",
        design="5 C15",
    ),
    "C11": dict(
        category="exploration",
        technique="exhaustive enumeration of canonical operation sequences (add/mutate/remove/new-instance) plus Hypothesis-drawn longer sequences against an abstract versioned-store model, invariants after every step",
        text="Operation sequences over add(name in 2, source in 2, content in 3), mutate source, remove(name), new instance - all canonical sequences up to length 4 (quick) / 5 (thorough, 100k+ sequences) and random sequences up to 25 steps (these also with multi-dot and mixed-case source file names). After every step, through the current and a brand-new CsvPaths: get_named_file exists, holds the latest registered bytes and is named by their SHA-256; fingerprint, manifest length and per-entry fingerprints/source names equal the model; every version ever registered is still on disk unmodified; source edits change nothing stored; named_file_names equals the model.",
        note="Trusted: the 30-line abstract model in vf/props/c11.py, hashlib. Exhaustive bound is length 5 (length 6 = 2.1M sequences was measured as too slow for a check).",
        design="5 C11",
    ),
    "C12": dict(
        category="exploration",
        technique="model-based testing of add/re-add/replace/remove/new-instance histories over Hypothesis-generated csvpath groups with comments and identities",
        text="Lists of 1-5 generated csvpaths with outer comments (before/after the path) carrying id/Id/ID/name/Name/NAME (precedence exercised), inner comments, newlines, print strings; histories of <=6 ops on 2 group names. After every op, through the current and a fresh instance: get_named_paths returns the same texts in order; name#id, $name.csvpaths.id, :from and :to select exactly the member/suffix/prefix; manifest length counts content changes only; last fingerprint equals sha256 of group.csvpaths; identities list equals the model; removed groups return None.",
        note="Trusted: abstract model in vf/props/c12.py. Known finding: member text containing the separator marker.",
        design="5 C12",
    ),
    "C04": dict(
        category="exploration",
        technique="Hypothesis-generated fail/skip/stop/onmatch/error programs under several error policies, per-line valid()/failed() taps, compared with the reference interpreter",
        text="Programs with conditional fail(), fail_and_stop(), fail.onmatch(), fails behind false '->' conditions and after skip()/stop(), plus an argument-error component, under policies with and without 'fail'; is_valid after the run, the per-line valid()/failed() sequence captured first and last on every line (monotone and equal to the model), the returned lines and the collected error lines are compared. Group aggregation is exercised by C09's manifest checks.",
        note="Trusted: reference interpreter + rule 'error handled under a fail policy => invalid'. The end-of-line tap on the very line an error is handled is not compared.",
        design="5 C04",
    ),
    "C07": dict(
        category="exploration",
        technique="metamorphic relation between collect(), next(), fast_forward() and collect(nexts=n) on fresh instances over Hypothesis-generated programs",
        text="For generated programs (general, control-function and fail/error shapes): collect() lines == next() lines; variables, counters, validity, stop state, errors, printouts identical after all three; for every n in 1..matches+1 collect(nexts=n) returns the first n lines and leaves exactly the state next() had at its n-th yield; the list objects next() yielded are kept and must still equal their as-yielded copies after the run.",
        note="No reference model: the relation is between runs of the real code. 'stopped' is not compared for early-exit collect(nexts=n).",
        design="5 C07",
    ),
    "C08": dict(
        category="exploration",
        technique="differential testing: standalone CsvPath vs the same member under all six CsvPaths methods, over Hypothesis-generated groups",
        text="Groups of 1-4 generated csvpaths (distinct ids, drawn order) over a generated table; every member's variables, validity, counters, errors, printouts (and lines for collecting methods) must equal its standalone run under collect_paths, fast_forward_paths, next_paths, collect_by_line, fast_forward_by_line, next_by_line (fresh CsvPaths per method); next_paths yields the concatenation and breadth-first runs yield the per-line union / (if_all_agree) intersection of the standalone decisions. The [errors] policy of config.ini is drawn per case (6 settings without raise) and some members raise an argument error on every line, so handling of errors (collected records, validity, stop, what reaches the printers) is part of the comparison.",
        note="Standalone behaviour is the oracle (checked separately by C01/C03). if_all_agree compared only when every member scans to end of file.",
        design="5 C08",
    ),
    "C13": dict(
        category="exploration",
        technique="Hypothesis-generated side-effect programs with one control function at a drawn position, compared with the reference interpreter's control semantics",
        text="1-5 side-effecting components (own-stack pushes of line_number(), prints, optional deciders) with stop()/stop(c)/c->stop(), skip forms, c->advance(n), fail_and_stop, last()->action, last.nocontrib()->action or bare last() at a drawn position firing on a drawn line, all scan windows, tables with interior/trailing blank records; returned lines, every stack, printouts, match_count, scan_count, validity compared.",
        note="Trusted: reference interpreter control rules from the statement. Scan ending on an interior blank record with last() present is UNDEFINED; scan_count not compared in runs that advance.",
        design="5 C13",
    ),
    "C16": dict(
        category="exploration",
        technique="Hypothesis-generated print templates (text and reference chunks in all arrangements) with expected output computed by the reference interpreter",
        text="Templates of 1-6 chunks: text over letters/digits/spaces/punctuation and references to variables, stack index/length, headers by name/index, metadata and $.csvpath fields; documented '..' escape and name terminators; print, print.onmatch, print.once; two printers. Expected entries are text chunks plus str(value) at that point of that line.",
        note="Trusted: reference interpreter values; renderer applies only the documented escaping. Templates do not start/end with whitespace; '~' excluded from text.",
        design="5 C16",
    ),
    "C01": dict(
        category="exploration",
        technique="Hypothesis-generated typed csvpath ASTs and CSV tables run through collect()/next(), compared line-for-line with a reference interpreter written from the docs",
        text="Generated programs (1-6 components, depth<=3, ~70 modelled functions, both logic modes, when/do, qualified assignments, side effects) over generated tables (ragged rows, blanks, empty/padded cells, multi-digit numbers) and scan windows; the returned lines must equal, in order and once each, the lines the reference interpreter says match. Where the docs are silent the oracle answers UNDEFINED and the case is discarded and counted.",
        note="Trusted: vf/model/refinterp.py (unverified reference interpreter; disagreements are triaged before being reported), the typed generator's construction rules. Not covered: functions outside the modelled set, depth>3, >6 components, onmatch interactions the docs leave open.",
        design="5 C01",
    ),
    "C03": dict(
        category="exploration",
        technique="Hypothesis-generated variable-writing csvpaths with per-line observation taps, compared with the reference interpreter's store and counters",
        text="Writer-heavy generated programs (assignments, qualified assignments, push/pop/peek, tally, counter, sum, subtotal, track, count(x), first, every, when/do); compared after the run (variables, scan_count, match_count) and at every scanned line (line_number/count_lines/count_scans/count() pushed to stacks, watched variables printed by a tap placed first on the line).",
        note="Trusted: reference interpreter; taps placed first on the line. every()'s bookkeeping variables and internal _intx_ keys are not compared.",
        design="5 C03",
    ),
    "C05": dict(
        category="exploration",
        technique="exhaustive enumeration of policy subsets x override x error kind x fault position against a one-line-per-flag outcome model",
        text="All 63 non-empty subsets of {raise,collect,stop,fail,print,quiet}, set through config.ini or the config attribute (config.ini may then say something else, raise included), x 15 validation-mode settings (4 of them combinations such as 'match, stop') x 7 error kinds (argument mismatch, function rule, Python exception, nested, right of ->, empty-string term, and a top-level function that rejects the offending value while benign lines alternate true/false) x {4 offending-line patterns x 3 component positions, header row at line 0, stop() on the offending line, last() action on a blank final line}; each a real run whose exception/errors/is_valid/lines-run/printouts/returned lines (under 'match' the offending lines must be returned) are compared with the model. Quick: seeded sample covering every (policy, kind, override), both routes for three settings; thorough: the full product (about 190,000 runs).",
        note="Trusted: vf/model/errpolicy.py. The count of error records per offending line is not fixed by the statement (>=1 required).",
        design="5 C05",
    ),
    "C06": dict(
        category="exploration",
        technique="Hypothesis round trip: generated records -> csv.writer -> CsvPath -> compared cell for cell; #name vs #index agreement",
        text="Arbitrary unicode cells (no CR/surrogates; NUL, quotes, delimiters, newlines, non-BMP), 0-12 records of 0-6 cells, blank records anywhere, 4 delimiters x 2 quote chars, LF or CRLF line terminator, minimal or full quoting, with or without a final newline. collect() of [*][yes()] must equal the non-blank records exactly; headers must be the cleaned first non-blank record; with tidy header names #name and #index stacks must agree element-wise, be the cell, and be None on short rows without failing the run.",
        note="Trusted: Python's csv module as the file writer (files it cannot read back itself are discarded and counted).",
        design="5 C06",
    ),
    "C14": dict(
        category="exploration",
        technique="exhaustive enumeration of qualifier subsets x value histories x rest-of-line patterns against a decision table",
        text="All 256 subsets of the eight assignment qualifiers x all 3-value sequences of y over {absent,1,2,3} (+true/false without increase/decrease) x all 8 patterns of 'rest of the line matches', each a real 3-line run; x after every line and the set of returned lines are compared with vf/model/assign.py. The table is run again on a tracking variable (@x.<quals> with the tracking name first or last and the qualifier order reversed; 256 x {absent,1,2}^3 x 8), and an empty-cell family covers onmatch/latch/onchange/nocontrib with y drawn from {absent, empty cell, 1, 2}. A zero family ({absent,0,1,2}) and a family whose rest of the line is a bare variable test written after the assignment complete it. Thorough is exhaustive over all five families (about 455,000 runs); quick is a seeded sample with every subset >=20 times.",
        note="Trusted: vf/model/assign.py. Where docs give two readings (latch with a blocking notnone/increase/decrease; a step where exactly one of x, y is an empty cell) both outcomes are admitted and counted.",
        design="5 C14",
    ),
    "C02": dict(
        category="exploration",
        technique="exhaustive enumeration of scan shapes x blank positions (L<=5) plus Hypothesis-sampled (scan, file) pairs (L<=9) against a set-algebra oracle",
        text="Every scan string of the quantified shapes with bounds 0..L+2 is run as a real csvpath over files of L+1 records and the returned lines, scan_count and per-line line_number() are compared with a set denotation written from the README. The quick tier enumerates all shapes on blank-free files (L<=5) and samples 2000 pairs with blanks (L<=9); the thorough tier enumerates the full product shapes x blank subsets for L<=5 (exhaustive for that sub-space) and samples 100000 pairs.",
        note="Trusted: vf/model/scanmodel.py (20 lines of set algebra), csv.writer for the files. Not covered: files with no non-blank record, lists that are not ascending/non-overlapping (outside the quantifier).",
        design="5 C02",
    ),
}

NOT_YET = {
}


def fuzz_of(pid):
    import re
    src = open(os.path.join(ROOT, "vf", "props", pid.lower() + ".py")).read()
    m = re.search(r'^FUZZ = \{"runs": (\d+), "procs": (\d+)\}', src, re.M)
    return {"runs": int(m.group(1)), "procs": int(m.group(2))} if m else None


def main():
    props = [json.loads(l) for l in open(os.path.join(ROOT, "properties.jsonl"))]
    checks = []
    na = []
    for p in props:
        pid = p["id"]
        c = CHECKS.get(pid)
        if c is None:
            na.append({"property_id": pid, "reason": NOT_YET.get(pid, "check not built yet in this framework (planned in DESIGN.md section 5); not claimed until it runs")})
            continue
        fz = fuzz_of(pid)
        if fz:
            c = dict(c, technique=c["technique"] + f"; thorough tier adds a coverage-guided campaign (atheris/libFuzzer mutating the bytes Hypothesis' fuzz_one_input decodes into the same strategy, same oracle; {fz['procs']} processes x {fz['runs']} runs)")
        checks.append({
            "property_id": pid,
            "quick_cmd": f"./check {pid} quick",
            "thorough_cmd": f"./check {pid} thorough",
            "evidence_file": f"/verif/evidence/{pid}.json",
            "replay_cmd_template": "env PYTHONPATH=/repo:/verif /venv/bin/python -m vf.replay {path}",
            "engine": "vf",
            "level_claimed": {"category": c["category"], "text": c["text"], "design_ref": c["design"]},
            "level_note": c["note"],
            "technique": c["technique"],
        })
    m = {
        "version": 1,
        "setup_cmd": "./setup.sh",
        "hooks": {
            "guard": "CSVPATH_CSVPATH_VERIF",
            "enable": "no source hooks are needed: checks import csvpath from /repo's working tree (PYTHONPATH=/repo) and observe through public results, files on disk and printers",
            "baseline_off_cmd": "cd /repo && /venv/bin/python -m pytest -ra -q -p no:cacheprovider --timeout=900 --continue-on-collection-errors",
            "source_commits": [],
            "add_only": True,
        },
        "engines": [
            {"name": "vf", "path": "/verif/vf", "serves_properties": [c["property_id"] for c in checks],
             "kind_free_text": "Hypothesis strategies + exhaustive enumerations sharded over 16 worker processes (thorough tier of C01 C03 C06 C16 C17: plus atheris coverage-guided campaigns over the same strategies), explicit oracles (reference models, round trips, differential and metamorphic relations), JSON replay files re-executed without Hypothesis"},
        ],
        "checks": checks,
        "not_applicable": na,
        "notes": "Each check: ./check <ID> quick|thorough (VERIF_SEED honoured). Exit 0 held / 1 VIOLATION / 2 harness-inconclusive. Known findings and fixed defects: known_findings.json. Seeded breakages: seeded/.",
    }
    with open(os.path.join(ROOT, "MANIFEST.json"), "w") as f:
        json.dump(m, f, indent=1)
    print("checks:", [c["property_id"] for c in checks], "not claimed:", [n["property_id"] for n in na])


if __name__ == "__main__":
    main()

#!/usr/bin/env python3
"""Regenerate /verif/MANIFEST.json from the table below (kept in one place so the
manifest is always schema-valid).  Validate with tools/validate.py."""
import json
import os

ROOT = os.path.dirname(os.path.dirname(os.path.abspath(__file__)))

CHECKS = {
    "C02": dict(
        category="exploration",
        technique="exhaustive enumeration of scan shapes x blank positions (L<=5) plus Hypothesis-sampled (scan, file) pairs (L<=9) against a set-algebra oracle",
        text="Every scan string of the quantified shapes with bounds 0..L+2 is run as a real csvpath over files of L+1 records and the returned lines, scan_count and per-line line_number() are compared with a set denotation written from the README. The quick tier enumerates all shapes on blank-free files (L<=5) and samples 2000 pairs with blanks (L<=9); the thorough tier enumerates the full product shapes x blank subsets for L<=5 (exhaustive for that sub-space) and samples 100000 pairs.",
        note="Trusted: vf/model/scanmodel.py (20 lines of set algebra), csv.writer for the files. Not covered: files with no non-blank record, lists that are not ascending/non-overlapping (outside the quantifier).",
        design="5 C02",
    ),
}

NOT_YET = {
}


def main():
    props = [json.loads(l) for l in open(os.path.join(ROOT, "properties.jsonl"))]
    checks = []
    na = []
    for p in props:
        pid = p["id"]
        c = CHECKS.get(pid)
        if c is None:
            na.append({"property_id": pid, "reason": NOT_YET.get(pid, "check not built yet in this framework (planned in DESIGN.md section 5); not claimed until it runs")})
            continue
        checks.append({
            "property_id": pid,
            "quick_cmd": f"./check {pid} quick",
            "thorough_cmd": f"./check {pid} thorough",
            "evidence_file": f"/verif/evidence/{pid}.json",
            "replay_cmd_template": "env PYTHONPATH=/repo:/verif /venv/bin/python -m vf.replay {path}",
            "engine": "vf",
            "level_claimed": {"category": c["category"], "text": c["text"], "design_ref": c["design"]},
            "level_note": c["note"],
            "technique": c["technique"],
        })
    m = {
        "version": 1,
        "setup_cmd": "./setup.sh",
        "hooks": {
            "guard": "CSVPATH_CSVPATH_VERIF",
            "enable": "no source hooks are needed: checks import csvpath from /repo's working tree (PYTHONPATH=/repo) and observe through public results, files on disk and printers",
            "baseline_off_cmd": "cd /repo && /venv/bin/python -m pytest -ra -q -p no:cacheprovider --timeout=900 --continue-on-collection-errors",
            "source_commits": [],
            "add_only": True,
        },
        "engines": [
            {"name": "vf", "path": "/verif/vf", "serves_properties": [c["property_id"] for c in checks],
             "kind_free_text": "Hypothesis strategies + exhaustive enumerations sharded over 16 worker processes, explicit oracles (reference models, round trips, differential and metamorphic relations), JSON replay files re-executed without Hypothesis"},
        ],
        "checks": checks,
        "not_applicable": na,
        "notes": "Each check: ./check <ID> quick|thorough (VERIF_SEED honoured). Exit 0 held / 1 VIOLATION / 2 harness-inconclusive. Known findings and fixed defects: known_findings.json. Seeded breakages: seeded/.",
    }
    with open(os.path.join(ROOT, "MANIFEST.json"), "w") as f:
        json.dump(m, f, indent=1)
    print("checks:", [c["property_id"] for c in checks], "not claimed:", [n["property_id"] for n in na])


if __name__ == "__main__":
    main()

#!/bin/sh
# usage: seed_verify.sh <ID> <A|B>  -- confirm a sub-agent's change in its scratch worktree:
# stable tests pass with it, demo fails with it, demo passes without it.
ID=$1; X=$2; WT=/tmp/seed/wt_$ID; OUT=/tmp/seed/out_$ID
cd $WT || exit 2
git checkout -q -- . ; git status --short | grep -v '^??' 
echo "== demo on clean tree"; /venv/bin/python $OUT/$X.demo.py >/tmp/seed/demo_clean.log 2>&1; echo "exit=$?"
git apply $OUT/$X.patch.diff || { echo "PATCH DOES NOT APPLY"; exit 2; }
echo "== stable tests with patch"; /tmp/seed/run_stable_tests.sh $WT | tail -1
echo "== demo with patch"; /venv/bin/python $OUT/$X.demo.py >/tmp/seed/demo_patched.log 2>&1; echo "exit=$?"; tail -3 /tmp/seed/demo_patched.log
git checkout -q -- . ; rm -rf archive cache inputs transfers 2>/dev/null; git status --short | grep -v '^??'

#!/bin/sh
# usage: seed_regress.sh [pattern]  -- re-run every kept seeded change (seeded/<X>/patch.diff) against the
# quick tier of its property's check, and, when that stays quiet, of the other checks its meta.json names;
# each in a scratch worktree of /repo HEAD (outside /repo and /verif). Writes seeded/REGRESSION.txt.
cd /verif || exit 2
OUT=${OUT:-seeded/REGRESSION.txt}
TMP=$(mktemp)
for d in seeded/${1:-C}*/; do
  x=$(basename $d)
  own=$(echo $x | cut -c1-3)
  others=$(grep -o 'C[0-9][0-9]' $d/meta.json | sort -u | grep -v $own | tr '\n' ' ')
  res="MISSED"
  for c in $own $others; do
    o=$(sh tools/seed_try_wt.sh /verif/$d/patch.diff $c quick 2>&1)
    if echo "$o" | grep -q "PATCH DOES NOT APPLY"; then res="patch-does-not-apply"; break; fi
    if echo "$o" | grep -q "^VIOLATION property=$c"; then res="caught-by-$c"; break; fi
  done
  echo "$x $res" | tee -a $TMP
done
rm -rf replays/_new
sort $TMP > $OUT; rm -f $TMP
grep -c caught $OUT; grep -v caught $OUT

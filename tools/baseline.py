#!/usr/bin/env python3
"""Run the repository's stable baseline tests (BASELINE.json stable_pass) and report
any that no longer pass.  Usage: tools/baseline.py [--full]
--full runs the whole suite with the BASELINE command (slow: ~11 min because the
always-fail tests wait on an unreachable OpenLineage server); default runs only the
538 stable tests by node id (~1 min)."""
import json, subprocess, sys, tempfile, os, xml.etree.ElementTree as ET

def main():
    full = "--full" in sys.argv
    b = json.load(open("/root/.vp/BASELINE.json"))
    stable = b["stable_pass"]
    ids = []
    for s in stable:
        mod, rest = s.split("::", 1)
        parts = mod.split(".")
        cls = parts[-1]
        path = "/".join(parts[:-1]) + ".py"
        ids.append(f"{path}::{cls}::{rest}")
    fd, xml = tempfile.mkstemp(suffix=".xml"); os.close(fd)
    cmd = ["/venv/bin/python", "-m", "pytest", "-q", "-p", "no:cacheprovider", "--timeout=900",
           "--continue-on-collection-errors", f"--junitxml={xml}"]
    if not full:
        cmd += ids
    env = dict(os.environ)
    env.pop("CSVPATH_CSVPATH_VERIF", None)
    env.pop("CSVPATH_CONFIG_PATH", None)
    r = subprocess.run(cmd, cwd="/repo", env=env, stdout=subprocess.PIPE, stderr=subprocess.STDOUT, text=True)
    passed = set()
    for tc in ET.parse(xml).getroot().iter("testcase"):
        if not any(c.tag in ("failure", "error", "skipped") for c in tc):
            passed.add(f"{tc.get('classname')}::{tc.get('name')}")
    os.unlink(xml)
    missing = [s for s in stable if s not in passed]
    print(r.stdout[-600:])
    print(f"stable={len(stable)} passed_now={len(passed)} missing={len(missing)}")
    for m in missing[:40]:
        print("  NOT PASSING:", m)
    sys.exit(1 if missing else 0)
main()
